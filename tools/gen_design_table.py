#!/usr/bin/env python3
"""Regenerate the obligations table of DESIGN.md section 7.9 from vlib/registry.py (in place)."""
import sys, os, re
sys.path.insert(0, os.path.join(os.path.dirname(__file__), '..'))
from vlib import registry as R

def cell(obls, tier):
    out = []
    for o in obls:
        if o['engine'] == 'K':
            inq = 'quick' in o['tiers']
            if (tier == 'quick' and inq) or (tier == 'thorough' and not inq):
                out.append('%s[K]' % o['id'])
        else:
            q = o['cfgs']['quick'] if 'quick' in o['tiers'] else []
            t = o['cfgs']['thorough']
            if tier == 'quick':
                if q: out.append('%s[L:%s]' % (o['id'], ','.join(q)))
            else:
                extra = [c for c in t if c not in q]
                if extra: out.append('%s%s[%s%s]' % (o['id'], '+' if q else '', '' if q else 'L:', ','.join(extra)))
    return ' '.join(out)

rows = ['| prop. | quick tier | added by the thorough tier |', '|---|---|---|']
for pid in sorted(R.PROPS):
    ob = R.PROPS[pid]['obligations']
    rows.append('| %s | %s | %s |' % (pid, cell(ob, 'quick'), cell(ob, 'thorough')))
p = os.path.join(os.path.dirname(__file__), '..', 'DESIGN.md')
s = open(p).read()
m = re.search(r'\| prop\. \| quick tier \|.*?\n(?=\n|\Z)', s, re.S)
assert m, 'table not found'
s = s[:m.start()] + '\n'.join(rows) + '\n' + s[m.end():]
open(p, 'w').write(s)
print('rows', len(rows) - 2)
