#!/usr/bin/env python3-vt
"""Regenerates /verif/MANIFEST.json from vlib/registry.py (claimed properties) + tools/claims.json (texts)."""
import json, os, sys
V = os.path.dirname(os.path.dirname(os.path.abspath(__file__)))
sys.path.insert(0, V)
from vlib import registry
props = [json.loads(l) for l in open(os.path.join(V, 'properties.jsonl'))]
claims = json.load(open(os.path.join(V, 'tools', 'claims.json')))
checks, na = [], []
for p in props:
    pid = p['id']
    c = claims.get(pid)
    if pid in registry.PROPS and c and c.get('claimed', True):
        engines = sorted(set(o['engine'] for o in registry.PROPS[pid]['obligations']))
        checks.append(dict(property_id=pid, quick_cmd='./check %s --tier quick' % pid, thorough_cmd='./check %s --tier thorough' % pid,
            evidence_file='evidence/%s.json' % pid, replay_cmd_template='./check %s --replay {path}' % pid,
            engine='+'.join({'K': 'kani', 'L': 'irsym'}[e] for e in engines),
            level_claimed=dict(category='model_checking', text=c['text'], design_ref='DESIGN.md section 4 / ' + pid),
            level_note=c.get('note', '') + ' Bounds, assumptions and what lies outside them are written to the evidence file on every run (coverage.bounds / outside_bounds / assumptions). Trusted: rustc, LLVM -O2 (engine L checks post-optimisation IR), Kani MIR->goto translation, CBMC, the irsym translator (validated against native execution on every run), z3, cvc5.',
            technique=c['technique']))
    else:
        na.append(dict(property_id=pid, reason=(c or {}).get('na_reason', 'check not yet built (solver-based check planned, see DESIGN.md section 4)')))
served = lambda eng: sorted(pid for pid in registry.PROPS if any(o['engine'] == eng for o in registry.PROPS[pid]['obligations']) and claims.get(pid, {}).get('claimed', True) and pid in [c['property_id'] for c in checks])
m = dict(version=1, setup_cmd='./setup.sh',
  hooks=dict(guard='verif_hooks (cargo feature of constriction, off by default)',
             enable='the harness crate /verif/harness depends on /repo by path with features = ["verif_hooks"]; Kani and the LLVM-IR build both see it, no RUSTFLAGS needed',
             baseline_off_cmd='cd /repo && cargo test --workspace --no-fail-fast --offline',
             source_commits=['523211c'], add_only=True),
  engines=[dict(name='irsym', path='irsym/', serves_properties=served('L'), kind_free_text='own LLVM-IR symbolic executor (path-wise, z3 term library) -> SMT-LIB2 -> portfolio of cvc5 (bit-blasting and int-blasting modes) and z3; counterexamples replayed through the kernels cdylib (checked and plain release builds); translator validated against native execution on every run'),
           dict(name='kani', path='vlib/kani.py + harness/src/proofs', serves_properties=served('K'), kind_free_text='Kani 0.68 / CBMC 6.11 proof harnesses over kani::any() inputs with unwinding assertions and kani::cover! vacuity witnesses; counterexamples replayed natively (harness/src/bin/kreplay.rs, dev and release profile)')],
  checks=checks, not_applicable=na,
  notes='See DESIGN.md. ./check <ID> --tier quick|thorough; exit 0 = held on everything explored (UNDECIDED obligations are listed, never counted as held); exit 1 + VIOLATION line = violation replayed natively; exit 2 = MACHINERY-ERROR. known_findings.json lists recorded/fixed defects.')
json.dump(m, open(os.path.join(V, 'MANIFEST.json'), 'w'), indent=1)
print('claimed:', [c['property_id'] for c in checks]); print('not applicable:', [n['property_id'] for n in na])
