#!/bin/bash
# usage: seed_verify.sh <worktree dir containing SEED/patch.diff and SEED/demo.rs>
# Confirms independently: (1) patch applies, crate builds, existing suite passes with it; (2) demo fails with it; (3) demo passes without it.
set -u
W=$1
cd $W || exit 2
export CARGO_NET_OFFLINE=true
git checkout -q -- src; rm -f tests/seed_demo.rs
git apply --check SEED/patch.diff || { echo "RESULT patch does not apply"; exit 1; }
git apply SEED/patch.diff
echo "== suite with patch"
cargo test --workspace --no-fail-fast --offline > SEED/verify_suite.log 2>&1; s1=$?
grep -E "^test result" SEED/verify_suite.log | tr '\n' ';'; echo " exit=$s1"
cp SEED/demo.rs tests/seed_demo.rs
echo "== demo with patch"
cargo test --offline --test seed_demo > SEED/verify_demo_patched.log 2>&1; d1=$?
grep -E "^test result" SEED/verify_demo_patched.log | tr '\n' ';'; echo " exit=$d1"
git checkout -q -- src
echo "== demo without patch"
cargo test --offline --test seed_demo > SEED/verify_demo_clean.log 2>&1; d0=$?
grep -E "^test result" SEED/verify_demo_clean.log | tr '\n' ';'; echo " exit=$d0"
rm -f tests/seed_demo.rs
if [ $s1 -eq 0 ] && [ $d1 -ne 0 ] && [ $d0 -eq 0 ]; then echo "RESULT confirmed"; else echo "RESULT NOT confirmed (suite=$s1 demo_patched=$d1 demo_clean=$d0)"; fi
