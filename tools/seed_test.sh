#!/bin/bash
# usage: seed_test.sh <seed name under /verif/seeded> <property id> [extra args for ./check]
# Applies the seeded change to /repo, runs the check, and ALWAYS restores /repo afterwards.
S=/verif/seeded/$1; P=$2; shift 2
cd /verif
if ! git -C /repo diff --quiet; then echo "/repo has uncommitted changes; refusing"; exit 2; fi
git -C /repo apply $S/patch.diff || { echo "patch does not apply"; exit 2; }
# evidence written while a seed is applied must never replace the evidence of the unchanged tree
EV=/verif/evidence/$P.json; BK=$(mktemp); [ -f $EV ] && cp $EV $BK
trap 'git -C /repo checkout -- . ; [ -s $BK ] && cp $BK $EV; rm -f $BK; echo "[/repo restored]"' EXIT
mkdir -p $S/runs
./check $P "$@" > $S/runs/$P.log 2>&1; rc=$?
tail -25 $S/runs/$P.log | cut -c1-300
echo "check exit=$rc"
