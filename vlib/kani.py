"""Engine K: run Kani/CBMC proof harnesses of /verif/harness against /repo's current tree, parse the
verdicts, replay counterexamples natively (bin/kreplay, dev and release profile)."""
import os, re, subprocess, time, json, resource, threading, queue, signal

VERIF = os.path.dirname(os.path.dirname(os.path.abspath(__file__)))
HARNESS = os.path.join(VERIF, 'harness')
BUILD = os.path.join(VERIF, '.build')

UB_CLASSES = ('safety_check', 'pointer_dereference', 'unreachable', 'pointer_arithmetic', 'pointer_primitives',
              'undefined-shift', 'NaN', 'memory-leak', 'bounds', 'precondition_instance', 'array_bounds', 'pointer')

def env():
    e = dict(os.environ); e['CARGO_NET_OFFLINE'] = 'true'; e.pop('RUSTFLAGS', None); e.pop('RUST_BACKTRACE', None)
    return e

def _limits(mem_gb):
    def f():
        os.setsid()
        if mem_gb:
            b = int(mem_gb * (1 << 30))
            resource.setrlimit(resource.RLIMIT_AS, (b, b))
    return f

def run_proc(cmd, timeout, mem_gb=None, cwd=HARNESS):
    t0 = time.time()
    # coreutils `timeout` puts the command in its own process group and signals the whole group: even if this
    # driver is killed, cargo-kani and its cbmc child cannot outlive the limit
    cmd = ['timeout', '-k', '10', str(int(timeout) + 60)] + list(cmd)
    p = subprocess.Popen(cmd, cwd=cwd, env=env(), stdout=subprocess.PIPE, stderr=subprocess.STDOUT, text=True, preexec_fn=_limits(mem_gb))
    try:
        out, _ = p.communicate(timeout=timeout)
        return p.returncode, out, time.time() - t0, False
    except subprocess.TimeoutExpired:
        try: os.killpg(p.pid, signal.SIGKILL)
        except Exception: pass
        out, _ = p.communicate()
        return -9, out or '', time.time() - t0, True

CHECK_RE = re.compile(r'^Check (\d+): (.*?)\n\s+- Status: (\w+)\n\s+- Description: "(.*?)"\n\s+- Location: (.*?)$', re.M | re.S)

def parse(out):
    checks = []
    for m in CHECK_RE.finditer(out):
        cid = m.group(2).strip()
        cls = 'other'
        mm = re.search(r'\.([A-Za-z_\-]+)\.\d+$', cid)
        if mm: cls = mm.group(1)
        checks.append(dict(id=cid, status=m.group(3), desc=m.group(4), loc=m.group(5).strip(), cls=cls))
    res = dict(checks=checks)
    m = re.search(r'^VERIFICATION:- (\w+)', out, re.M)
    res['verdict'] = m.group(1) if m else None
    m = re.search(r'Verification Time: ([\d.]+)s', out)
    res['cbmc_s'] = float(m.group(1)) if m else None
    m = re.search(r'\*\* (\d+) of (\d+) cover properties satisfied', out)
    res['cover'] = (int(m.group(1)), int(m.group(2))) if m else None
    m = re.search(r'\*\* (\d+) of (\d+) failed', out)
    res['failed_n'] = int(m.group(1)) if m else None
    res['error'] = bool(re.search(r'Status: ERROR|CBMC failed|error: internal compiler error|panicked at|SIGKILL|std::bad_alloc|Out of memory|memory exhausted', out)) and res['verdict'] != 'SUCCESSFUL'
    res['compile_error'] = bool(re.search(r'^error(\[E\d+\])?:', out, re.M)) and res['verdict'] is None
    return res

def classify_failure(c):
    """-> 'harness' (property assertion), 'unwind', 'ub', 'libpanic', 'unsupported'"""
    loc, cls, desc = c['loc'], c['cls'], c['desc']
    if cls == 'unwind' or 'unwinding assertion' in desc: return 'unwind'
    if cls == 'unsupported_construct' or 'not currently supported by Kani' in desc: return 'unsupported'
    if loc.startswith('src/proofs') or loc.startswith('src/common') or loc.startswith('src/ksrc'):
        return 'harness'
    if cls in UB_CLASSES or 'dereference failure' in desc or 'unreachable code' in desc or 'unsafe precondition' in desc \
            or 'misaligned' in desc or 'must point to the same allocation' in desc or 'invalid value' in desc.lower():
        return 'ub'
    return 'libpanic'

def parse_playback(out):
    """list of (check kind, description, [bytes...]) from --concrete-playback=print output"""
    tests = []
    for m in re.finditer(r'/// Check for `(\w+)`: "(.*?)"\s*\n#\[test\]\nfn \w+\(\) \{\n\s+let concrete_vals: Vec<Vec<u8>> = vec!\[(.*?)\n\s+\];', out, re.S):
        vecs = []
        for v in re.finditer(r'vec!\[([\d,\s]*)\]', m.group(3)):
            vecs.append([int(x) for x in v.group(1).replace(' ', '').split(',') if x != ''])
        tests.append((m.group(1), m.group(2), vecs))
    return tests

_native_lock = threading.Lock()
_native_built = {}
def build_native(profile):
    """kreplay binary in dev / release profile (plain: no overflow checks for 'plainrel')"""
    with _native_lock:
        if profile in _native_built: return _native_built[profile]
        tdir = os.path.join(BUILD, 'native')
        if profile == 'dev': cmd = ['cargo', 'build', '--bin', 'kreplay', '--target-dir', tdir]; sub = 'debug'
        else: cmd = ['cargo', 'build', '--bin', 'kreplay', '--profile', 'plainrel', '--target-dir', tdir]; sub = 'plainrel'
        rc, out, t, to = run_proc(cmd, 900)
        if rc != 0: raise RuntimeError('native build failed:\n' + out[-3000:])
        _native_built[profile] = os.path.join(tdir, sub, 'kreplay')
        return _native_built[profile]

def replay_native(file, name, vecs, profile='dev'):
    exe = build_native(profile)
    hexs = ','.join(''.join('%02x' % b for b in v) for v in vecs)
    e = env(); e['RUST_BACKTRACE'] = '0'
    try:
        p = subprocess.run([exe, file, name, hexs], capture_output=True, text=True, timeout=120, env=e)
    except subprocess.TimeoutExpired:
        return dict(rc=-9, out='timeout (possible non-termination)', reproduced=True, timeout=True)
    msg = (p.stdout + p.stderr)[-1200:]
    return dict(rc=p.returncode, out=msg, reproduced=p.returncode not in (0, 2, 4))

class Slots:
    def __init__(self, n):
        self.q = queue.Queue()
        for i in range(n): self.q.put(i)
    def get(self): return self.q.get()
    def put(self, i): self.q.put(i)

def run_harness(ob, slots, log=lambda *a: None):
    """ob: dict(file, name, timeout, mem_gb, lib_panics ('forbid'|'allow'), ub ('forbid'), stubbing(bool), extra(list))"""
    full = 'proofs::%s::%s::check' % (ob['file'], ob['name'])
    slot = slots.get()
    try:
        tdir = os.path.join(BUILD, 'kani', 's%d' % slot)
        base = ['cargo', 'kani', '--exact', '--harness', full, '--target-dir', tdir] + ob.get('extra', [])
        if ob.get('stubbing'): base += ['-Z', 'stubbing']
        rc, out, wall, timed_out = run_proc(base, ob.get('timeout', 600), ob.get('mem_gb', 14))
        r = dict(obligation=ob['id'], engine='K', harness=full, wall_s=round(wall, 1))
        if timed_out:
            r.update(status='undecided', reason='timeout after %ds' % ob.get('timeout', 600)); return r
        p = parse(out)
        r['cbmc_s'] = p['cbmc_s']; r['n_checks'] = len(p['checks']); r['cover'] = p['cover']
        if p['compile_error'] or (p['verdict'] is None):
            r.update(status='undecided', reason='no verdict (compile error / crash): ' + out[-600:].replace('\n', ' | ')); return r
        failed = [c for c in p['checks'] if c['status'] == 'FAILURE']
        covers = [c for c in p['checks'] if c['cls'] == 'cover']
        r['cover_unsat'] = [c['desc'] + ' @' + c['loc'].split(' in ')[0] for c in covers if c['status'] not in ('SATISFIED',)]
        if p['verdict'] == 'SUCCESSFUL':
            if r['cover_unsat']:
                r.update(status='undecided', reason='vacuity: cover not satisfied: ' + '; '.join(r['cover_unsat'][:3]))
            else:
                r['status'] = 'held'
            return r
        kinds = {}
        for c in failed: kinds.setdefault(classify_failure(c), []).append(c)
        r['failed'] = [dict(kind=classify_failure(c), desc=c['desc'], loc=c['loc'][-160:]) for c in failed][:12]
        if p['error'] and not failed:
            r.update(status='undecided', reason='CBMC error/out of memory'); return r
        if 'unwind' in kinds:
            r.update(status='undecided', reason='unwinding assertion failed (bound too small): ' + kinds['unwind'][0]['loc'][-120:]); return r
        if ob.get('only_ub'):
            # C20 view of a harness shared with another property: only UB-class checks count here
            relevant = list(kinds.get('ub', []))
        else:
            relevant = list(kinds.get('harness', [])) + list(kinds.get('ub', []))
            if ob.get('lib_panics', 'forbid') == 'forbid': relevant += kinds.get('libpanic', [])
        if not relevant:
            if kinds.get('unsupported'):
                r.update(status='undecided', reason='unsupported construct reachable: ' + kinds['unsupported'][0]['desc'][:100]); return r
            # only allowed library panics failed
            r['allowed_panics'] = len(kinds.get('libpanic', []))
            if r['cover_unsat']:
                r.update(status='undecided', reason='vacuity: cover not satisfied: ' + '; '.join(r['cover_unsat'][:3]))
            else:
                r['status'] = 'held'
            return r
        # ---- counterexample: get concrete values and replay natively
        # second phase (only on failure): extract concrete values. Kani then checks properties one by one with
        # traces, which needs far more time and memory than the plain run: generous limits, run alone in its slot
        rc2, out2, wall2, to2 = run_proc(base + ['-Z', 'concrete-playback', '--concrete-playback=print'],
                                         max(ob.get('timeout', 600) * 4, 2400), 40)
        r['wall_s'] = round(wall + wall2, 1)
        tests = parse_playback(out2)
        want = set(c['desc'] for c in relevant)
        cands = [t for t in tests if t[0] != 'cover' and (t[1] in want or not want)]
        if not cands: cands = [t for t in tests if t[0] != 'cover']
        cex = None
        for kind, desc, vecs in cands:
            d = replay_native(ob['file'], ob['name'], vecs, 'dev')
            rel = replay_native(ob['file'], ob['name'], vecs, 'plainrel')
            cex = dict(harness=full, file=ob['file'], name=ob['name'], check=desc, vecs=vecs, native_dev=d, native_release=rel,
                       reproduced=bool(d['reproduced'] or rel['reproduced']))
            if cex['reproduced']: break
        r['cex'] = cex
        only_ub = bool(ob.get('only_ub')) or (not kinds.get('harness') and not (ob.get('lib_panics', 'forbid') == 'forbid' and kinds.get('libpanic')))
        if cex and cex['reproduced']:
            r['status'] = 'violated'
        elif only_ub and cex is not None:
            # UB-class failure that no native run confirms: reported separately (triage by reading)
            r.update(status='violated', ub_unconfirmed=True)
        else:
            r.update(status='machinery-error', reason='Kani counterexample does not reproduce natively: %s' % json.dumps(cex)[:500])
        return r
    finally:
        slots.put(slot)
