"""Obligation registry: property id -> obligations (engine K harnesses / engine L kernels), tiers, bounds.
See DESIGN.md section 4 for what each obligation states."""

TRUSTED = [
    'trusted base: rustc, LLVM -O2 (engine L sees post-optimisation IR), Kani MIR->goto translation, CBMC 6.11, irsym (validated every run '
    'against the native kernels), z3 4.8.12 / cvc5 1.0',
    'arithmetic lemma instances added to SMT queries (division lemma, uniqueness of Euclidean division, quotient bounds) are theorems of '
    'bit-vector arithmetic; they never change satisfiability',
]

# configurations (Word, State, Probability, PRECISION) -> suffix used in kernel names
S_ALL = ['u8_u16_p1', 'u8_u16_p4', 'u8_u16_p7', 'u8_u16_p8']
W_ALL = ['u8_u32_p1', 'u8_u32_p8', 'u8_u64_p8', 'u16_u64_p12', 'u16_u64_p16']
D_ALL = ['u16_u32_p12', 'u16_u32_p16', 'u32_u64_p16', 'u32_u64_p24', 'u32_u64_p32']
ALL = S_ALL + W_ALL + D_ALL
QUICK = ['u8_u16_p4', 'u8_u16_p8', 'u16_u32_p12', 'u32_u64_p24', 'u8_u32_p8']

def L(id, kernel, quick, thorough=None, **kw):
    d = dict(id=id, engine='L', kernel=kernel, cfgs=dict(quick=quick, thorough=thorough if thorough is not None else quick),
             tiers=('quick', 'thorough') if quick else ('thorough',))
    d.update(kw); return d

def K(id, file, name, tiers=('quick', 'thorough'), tq=600, tt=3600, **kw):
    d = dict(id=id, engine='K', file=file, name=name, tiers=tiers, timeout=dict(quick=tq, thorough=tt))
    d.update(kw); return d

PROPS = {}

PROPS['C01'] = dict(
    obligations=[
        L('c01_step', 'k_c01_step_{cfg}', QUICK, ALL),
    ],
    bounds='one encode->decode step from ANY raw state satisfying the representation invariant (bulk [] or [w0]; deeper words are never touched), '
           'any (cum,p) a well-formed model can answer (Cuts model, 3 symbols), at each listed (Word,State,Probability,PRECISION); '
           'constructor/export identities on Vec<Word> of length <= StateBits/WordBits+1; batch forms k<=3',
    outside='Word/State of usize/u128; back ends other than Vec/array stack (their contracts: C17); histories are covered only through the '
            'inductive step + invariant argument',
    assumptions=['representation invariant Inv_ans assumed on the symbolic pre-state and proved preserved by every step'],
)

PROPS['C17'] = dict(
    obligations=[
        K('c17_cursor_script', 'c17', 'cursor_script_mut_slice', tq=900),
        K('c17_cursor_none_sticky', 'c17', 'cursor_none_is_sticky', tq=600),
        K('c17_cursor_constructors', 'c17', 'cursor_constructors', tq=300),
        K('c17_reversed_equiv', 'c17', 'reversed_equiv_script', tq=900),
        K('c17_revcursor_space_left', 'c17', 'revcursor_space_left', tq=300),
        K('c17_vec_stack', 'c17', 'vec_stack_script', tq=900),
        K('c17_iter_adapters', 'c17', 'iter_adapters', tq=600),
        K('c17_callback_writers', 'c17', 'callback_writers', tq=600),
    ],
    bounds='Word=u8, buffers <= 4 words, symbolic operation scripts of 5 steps drawn from {read (both semantics), write, seek, pos, '
           'remaining/space_left/is_full/is_exhausted} on Cursor<&mut [u8]> / Cursor<&[u8]> / Reverse<Cursor> / Vec<u8>; iterator and callback adapters on <= 4 words',
    outside='longer buffers/scripts; Word types other than u8 (the back ends never do arithmetic on words); SmallVec (its own unsafe code is outside '
            'constriction; the impl only forwards to push/pop/truncate exactly like Vec)',
    assumptions=['cursor pre-states are built by the public constructors (pos <= len)'],
)
