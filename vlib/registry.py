"""Obligation registry: property id -> obligations (engine K harnesses / engine L kernels), tiers, bounds.
See DESIGN.md section 4 for what each obligation states."""

TRUSTED = [
    'trusted base: rustc, LLVM -O2 (engine L sees post-optimisation IR), Kani MIR->goto translation, CBMC 6.11, irsym (validated every run '
    'against the native kernels), z3 4.8.12 / cvc5 1.0',
    'arithmetic lemma instances added to SMT queries (division lemma, uniqueness of Euclidean division, quotient bounds) are theorems of '
    'bit-vector arithmetic; they never change satisfiability',
]

# configurations (Word, State, Probability, PRECISION) -> suffix used in kernel names
S_ALL = ['u8_u16_p1', 'u8_u16_p4', 'u8_u16_p7', 'u8_u16_p8']
W_ALL = ['u8_u32_p1', 'u8_u32_p8', 'u8_u64_p8', 'u16_u64_p12', 'u16_u64_p16']
D_ALL = ['u16_u32_p12', 'u16_u32_p16', 'u32_u64_p16', 'u32_u64_p24', 'u32_u64_p32']
ALL = S_ALL + W_ALL + D_ALL
QUICK = ['u8_u16_p4', 'u8_u16_p8', 'u16_u32_p12', 'u32_u64_p24', 'u8_u32_p8']

def L(id, kernel, quick, thorough=None, **kw):
    d = dict(id=id, engine='L', kernel=kernel, cfgs=dict(quick=quick, thorough=thorough if thorough is not None else quick),
             tiers=('quick', 'thorough') if quick else ('thorough',))
    d.update(kw); return d

def K(id, file, name, tiers=('quick', 'thorough'), tq=600, tt=3600, **kw):
    d = dict(id=id, engine='K', file=file, name=name, tiers=tiers, timeout=dict(quick=tq, thorough=tt))
    d.update(kw); return d

PROPS = {}

def BR(id, quick, thorough=None, **kw):
    """harness bodies of proofs/* driven through engine L by the bridge (harness/src/kernels/bridge.rs): the cfg is the harness name.
    Verdict codes 21 (input buffer exhausted) / 22 (float requested) are proof-structure codes."""
    kw.setdefault('soft', [21, 22]); kw.setdefault('unwind', 24); kw.setdefault('feas_ms', 2000)
    return L(id, 'k_h_{cfg}', quick, thorough if thorough is not None else quick, **kw)

def cfg_bits(cfg):
    w, s, p = cfg.split('_')[:3]
    return int(w[1:]), int(s[1:]), int(p[1:])

def range_fixes(cfg, tier, seed):
    """concrete values for the `range` argument of range-coder kernels at wide configurations (keeps every
    product scale*x linear for the int-blasting solvers); every other input stays symbolic.  Small
    configurations get None (= fully symbolic) as well."""
    import random
    wb, sb, p = cfg_bits(cfg)
    lo = 1 << (sb - wb)
    mx = (1 << sb) - 1
    vals = [lo, lo + 1, mx, (1 << (sb - 1)) + 1, 3 * lo - 1, (lo << 1) | 0x5a5]
    rng = random.Random(seed * 1000003 + sb * 131 + wb)
    vals += [rng.randrange(lo, mx + 1) for _ in range(2 if tier == 'quick' else 10)]
    if tier == 'quick': vals = [vals[0], vals[2], vals[6]]
    out = [dict(range=v, range0=v) for v in vals]
    return ([None] if sb <= 16 else []) + out

def range_fixes_small(cfg, tier, seed):
    """for the (path-rich) kernels that start from an Inverted state: the quick tier concretises `range` to
    boundary values only (fully symbolic range and the large 64-bit ranges cost 200-500 s each: thorough tier)"""
    if tier != 'quick': return range_fixes(cfg, tier, seed)
    wb, sb, p = cfg_bits(cfg)
    lo = 1 << (sb - wb); mx = (1 << sb) - 1
    vals = (lo, lo + 1, mx, lo + ((seed + 1) * 2654435761) % (mx - lo)) if sb < 32 else (lo, lo + 1)
    return [dict(range=v, range0=v) for v in vals]

def range_fixes_small_sym(cfg, tier, seed):
    """as range_fixes_small, plus the fully symbolic run at StateBits = 16 (C11: the seal-after-Inverted corner needs a tiny
    post-step range with a wrapping point, which none of the boundary values of the pre-step range produces)"""
    out = range_fixes_small(cfg, tier, seed)
    if tier == 'quick' and cfg_bits(cfg)[1] <= 16: out = [None] + out
    return out

def cuts_fixes(cfg, tier, seed):
    """concrete cut points (c1, c2) of the 3-symbol model at wide configurations: probabilities and cumulatives
    become constants, so every multiplication/division in the step is by a constant (linear for the int-blasting
    solvers); coder state, data words and symbols stay symbolic.  Small configurations: fully symbolic."""
    import random
    wb, sb, p = cfg_bits(cfg)
    if sb <= 16: return [None]
    T = 1 << p
    pairs = [(1, 2), (1, T - 1), (T - 2, T - 1), (T // 2, T // 2 + 1), (1, T // 2), (T // 3, 2 * T // 3 + 1)]
    rng = random.Random(seed * 7919 + sb * 31 + p)
    for _ in range(2 if tier == 'quick' else 8):
        a = rng.randrange(1, T - 1); b = rng.randrange(a + 1, T)
        pairs.append((a, b))
    if tier == 'quick': pairs = [pairs[0], pairs[3], pairs[6]]
    return ([None] if tier == 'thorough' else []) + [dict(c1=a, c2=b) for a, b in pairs]

PROPS['C01'] = dict(
    obligations=[
        L('c01_step', 'k_c01_step_{cfg}', QUICK, ALL, fixes=cuts_fixes),
        BR('c01_harness_via_irsym', ['ans_view_u32_u64', 'ans_view_u8_u32', 'ans_export_u8_u32', 'ans_export_u32_u64', 'ans_reimport_u32_u64']),
        L('c01_batch_eq_loop', 'k_c01_batch_{cfg}', ['u8_u16_p4'], ['u8_u16_p4', 'u8_u16_p8', 'u16_u32_p12', 'u32_u64_p24'], cap=dict(quick=60, thorough=600)),
        L('c01_batch_dec_eq_loop', 'k_c01_batch_dec_{cfg}', ['u8_u16_p4'], ['u8_u16_p4', 'u16_u32_p12', 'u32_u64_p24'], cap=dict(quick=60, thorough=600)),
        K('c01_ctor_u8_u16', 'ans', 'ctor_u8_u16'), K('c01_ctor_u16_u32', 'ans', 'ctor_u16_u32'), K('c01_ctor_u32_u64', 'ans', 'ctor_u32_u64'),
        K('c01_ctor_u8_u32', 'ans', 'ctor_u8_u32', tiers=('thorough',)),
        K('c01_export_u8_u16', 'ans', 'export_u8_u16'), K('c01_export_u16_u32', 'ans', 'export_u16_u32'), K('c01_export_u32_u64', 'ans', 'export_u32_u64'),
        K('c01_export_u8_u32', 'ans', 'export_u8_u32', tiers=('thorough',)),
        K('c01_view_u8_u16', 'ans', 'view_u8_u16'), K('c01_view_u16_u32', 'ans', 'view_u16_u32'), K('c01_view_u32_u64', 'ans', 'view_u32_u64', tiers=('thorough',)),
        K('c01_view_u8_u32', 'ans', 'view_u8_u32', tiers=('thorough',)),
        K('c01_reimport_u8_u16', 'ans', 'reimport_u8_u16'), K('c01_reimport_u16_u32', 'ans', 'reimport_u16_u32'), K('c01_reimport_u32_u64', 'ans', 'reimport_u32_u64'),
        K('c01_reimport_u8_u32', 'ans', 'reimport_u8_u32', tiers=('thorough',)),
    ],
    bounds='one encode->decode step from ANY raw state satisfying the representation invariant (bulk [] or [w0]; deeper words are never touched), '
           'any (cum,p) a well-formed model can answer (Cuts model, 3 symbols), at each listed (Word,State,Probability,PRECISION); '
           'constructor/export identities on Vec<Word> of length <= StateBits/WordBits+1; batch forms k<=3',
    outside='Word/State of usize/u128; back ends other than Vec/array stack (their contracts: C17); histories are covered only through the '
            'inductive step + invariant argument',
    assumptions=['representation invariant Inv_ans assumed on the symbolic pre-state and proved preserved by every step'],
)

PROPS['C04'] = dict(
    obligations=[
        L('c04_step', 'k_c04_step_{cfg}', QUICK, ALL, fixes=cuts_fixes),
        BR('c04_harness_via_irsym', ['ans_binary_u32_u64', 'ans_binary_u16_u32', 'ans_guards_u32_u64']),
        K('c04_binary_u8_u16', 'ans', 'binary_u8_u16'), K('c04_binary_u16_u32', 'ans', 'binary_u16_u32'),
        K('c04_binary_u32_u64', 'ans', 'binary_u32_u64'), K('c04_binary_u8_u32', 'ans', 'binary_u8_u32', tiers=('thorough',)),
        K('c04_guards_u8_u16', 'ans', 'guards_u8_u16'), K('c04_guards_u16_u32', 'ans', 'guards_u16_u32'),
        K('c04_guards_u32_u64', 'ans', 'guards_u32_u64', tiers=('thorough',)),
    ],
    bounds='one decode->encode step from ANY raw state satisfying the invariant (inductive: k steps follow), any (cum,p); raw-binary accessors on every word pattern of '
           'length <= StateBits/WordBits+1 (zero words in every position) over the real Vec back end',
    outside='Word/State of usize/u128; data longer than StateBits/WordBits+1 words for the accessor identities (words below the state window are never touched)',
    assumptions=['Inv_ans assumed on symbolic pre-states and proved preserved'],
)

def cuts2_fixes(cfg, tier, seed):
    """two-step chain kernel: both models concrete (same cut points for both steps, incl. power-of-two probabilities), heads and data words symbolic"""
    wb, sb, p = cfg_bits(cfg)
    T = 1 << p
    pairs = [(T // 2, T // 2 + 1), (1, 2), (1, T - 1), (T // 4, T // 2), (T // 3, 2 * T // 3 + 1)]
    if tier == 'quick': pairs = pairs[:3]
    return [dict(c1=a, c2=b, d1=a, d2=b) for a, b in pairs if 0 < a < b < T]

RS = ['u8_u16_p4', 'u8_u16_p8']
RQ = ['u8_u16_p4', 'u16_u32_p12', 'u32_u64_p24']
RALL = ['u8_u16_p4', 'u8_u16_p8', 'u8_u32_p8', 'u16_u32_p12', 'u16_u32_p16', 'u16_u64_p16', 'u32_u64_p24', 'u32_u64_p32']
INV_SOFT = [20, 21, 22, 23]

PROPS['C02'] = dict(
    obligations=[
        L('c02_rt_k1', 'k_c02_rt_k1_{cfg}', RQ, RALL, fixes=range_fixes),
        L('c02_rt_from_inverted', 'k_c02_rt_inv_k1_{cfg}', ['u8_u16_p4', 'u32_u64_p24'], ['u8_u16_p4', 'u8_u16_p8', 'u16_u32_p12', 'u16_u32_p16', 'u32_u64_p24', 'u32_u64_p32'], fixes=range_fixes_small),
        L('c02_rt_k2', 'k_c02_rt_k2_{cfg}', [], ['u8_u16_p4', 'u8_u16_p8', 'u8_u32_p8', 'u16_u32_p12', 'u32_u64_p24'], cap=dict(quick=90, thorough=600), explore_cap=dict(quick=300, thorough=3000)),
        L('c02_rt_k3', 'k_c02_rt_k3_{cfg}', [], ['u8_u16_p4', 'u8_u16_p8'], cap=dict(quick=90, thorough=900)),
        L('c02_fresh_k2', 'k_c02_fresh_k2_{cfg}', [], ['u8_u16_p4', 'u8_u16_p8', 'u8_u32_p8', 'u16_u32_p12', 'u32_u64_p24'], cap=dict(quick=90, thorough=600), explore_cap=dict(quick=400, thorough=3000)),
        L('c02_fresh_k3', 'k_c02_fresh_k3_{cfg}', [], ['u8_u16_p8'], cap=dict(quick=90, thorough=900)),
        L('c02_step_inv', 'k_c02_step_inv_{cfg}', RQ, RALL, soft=INV_SOFT, fixes=range_fixes),
        L('c02_inverted_step_ref', 'k_c06_range_inv_{cfg}', ['u8_u16_p4', 'u16_u32_p12', 'u32_u64_p24'], ['u8_u16_p4', 'u8_u16_p8', 'u16_u32_p12', 'u16_u32_p16', 'u32_u64_p24'], fixes=range_fixes),
        K('c02_rt_k1_u8_u16_p4_cbmc', 'kk', 'c02_rt_k1_u8_u16_p4', tq=600),
        K('c02_rt_k1_u8_u16_p8_cbmc', 'kk', 'c02_rt_k1_u8_u16_p8', tiers=('thorough',), tt=3600),
        K('c02_rt_k2_u8_u16_p4_cbmc', 'kk', 'c02_rt_k2_u8_u16_p4', tiers=('thorough',), tt=3600),
        K('c02_rt_k2_u8_u16_p8_cbmc', 'kk', 'c02_rt_k2_u8_u16_p8', tiers=('thorough',), tt=7200),
        K('c02_rt_k3_u8_u16_p4_cbmc', 'kk', 'c02_rt_k3_u8_u16_p4', tiers=('thorough',), tt=14400),
    ],
    bounds='k <= 3 symbols per cut; cut = arbitrary raw encoder state (lower, range) in the Normal situation with an empty sink + decoder started from the same state '
           '(k=1 at every listed width; k=2,3 at the small widths), and the fresh encoder (k <= 3); any (cum,p) via the Cuts model. At StateBits >= 32 the `range` '
           'argument of one-step obligations is drawn from a stated list of concrete values (boundary values + VERIF_SEED-seeded ones), all other inputs symbolic',
    outside='inverted runs longer than 3 words; k >= 2 with fully symbolic state at StateBits >= 32 (attempted in the thorough tier, reported UNDECIDED when the solvers do not finish); '
            'Word/State of usize/u128',
    assumptions=['Inv_renc on symbolic pre-states (range >= 2^(SB-WB), Normal => lower+range does not wrap, Inverted(n,w) => wraps, n>=1, w != MAX)'],
)

PROPS['C10'] = dict(
    obligations=[
        L('c10_ans', 'k_c10_ans_{cfg}', ['u8_u16_p4', 'u8_u16_p8', 'u16_u32_p12', 'u32_u64_p24'], ['u8_u16_p4', 'u8_u16_p8', 'u8_u32_p8', 'u16_u32_p12', 'u16_u32_p16', 'u16_u64_p16', 'u32_u64_p24', 'u32_u64_p32']),
        L('c10_range', 'k_c10_range_{cfg}', RQ, ['u8_u16_p4', 'u8_u16_p8', 'u8_u32_p8', 'u16_u32_p12', 'u16_u32_p16', 'u32_u64_p24', 'u32_u64_p32']),
        L('c10_range_step', 'k_c10_range_step_{cfg}', RQ, ['u8_u16_p4', 'u8_u16_p8', 'u8_u32_p8', 'u16_u32_p12', 'u16_u32_p16', 'u32_u64_p24', 'u32_u64_p32'], soft=INV_SOFT, fixes=range_fixes),
    ],
    bounds='ANS: two decodes from ANY raw parts (invariant not assumed); range decoder: two decodes over an arbitrary word array of any length <= StateBits/WordBits+2, and one decode '
           'from any raw state accepted by from_raw_parts; chain coder: one decode from any head/data; no panic, overflow, unreachable or out-of-object access on any path',
    outside='lookup-table and lazily quantised models inside the coder step (their own totality is checked separately by Kani harnesses); Word/State of usize/u128',
    assumptions=['models answer like a well-formed 3-symbol model with arbitrary cut points (Cuts)'],
)

PROPS['C11'] = dict(
    obligations=[
        L('c11_suffix_k1', 'k_c11_suffix_k1_{cfg}', RQ, ['u8_u16_p4', 'u8_u16_p8', 'u16_u32_p12', 'u16_u32_p16', 'u32_u64_p24', 'u32_u64_p32'], fixes=range_fixes),
        L('c11_suffix_from_inverted', 'k_c11_suffix_inv_k1_{cfg}', ['u8_u16_p4', 'u32_u64_p24'], ['u8_u16_p4', 'u8_u16_p8', 'u16_u32_p12', 'u16_u32_p16', 'u32_u64_p24', 'u32_u64_p32'], fixes=range_fixes_small_sym, explore_cap=dict(quick=500, thorough=3000)),
        L('c11_suffix_k2', 'k_c11_suffix_k2_{cfg}', [], ['u8_u16_p4', 'u8_u16_p8', 'u16_u32_p12', 'u32_u64_p24'], cap=dict(quick=90, thorough=600), explore_cap=dict(quick=300, thorough=3000)),
        K('c11_suffix_k2_u8_u16_p4_cbmc', 'kk', 'c11_suffix_k2_u8_u16_p4', tiers=('thorough',), tt=7200), K('c11_suffix_k1_u8_u16_p4_cbmc', 'kk', 'c11_suffix_k1_u8_u16_p4', tq=900),
        K('c11_suffix_k1_u8_u16_p8_cbmc', 'kk', 'c11_suffix_k1_u8_u16_p8', tiers=('thorough',), tt=3600),
    ],
    bounds='as C02 cut obligations, with StateBits/WordBits + k arbitrary suffix words appended after the sealed output; StateBits = 2*WordBits configurations (all presets)',
    outside='StateBits > 2*WordBits: known finding (see known_findings.json), the obligation is not claimed there; k >= 3',
    assumptions=['as C02'],
)

CH_Q = ['u8_u16_p3', 'u8_u16_p4', 'u8_u16_p8', 'u16_u32_p12', 'u32_u64_p24']
CH_ALL = ['u8_u16_p3', 'u8_u16_p7', 'u16_u32_p9', 'u32_u64_p17', 'u8_u16_p4', 'u8_u16_p8', 'u8_u32_p8', 'u16_u32_p12', 'u16_u32_p16', 'u16_u64_p16', 'u32_u64_p24', 'u32_u64_p32']
PROPS['C13'] = dict(
    obligations=[
        L('c13_step', 'k_c13_step_{cfg}', CH_Q, CH_ALL, soft=[20, 21], fixes=cuts_fixes),
        L('c13_step2', 'k_c13_step2_{cfg}', ['u8_u16_p4'], ['u8_u16_p4', 'u8_u16_p8', 'u16_u32_p12', 'u32_u64_p24'], fixes=cuts2_fixes, cap=dict(quick=60, thorough=300)),
        L('c13_heads_io', 'k_c13_io_{cfg}', ['u8_u16_p4', 'u8_u16_p8', 'u16_u32_p12', 'u32_u64_p24'], ['u8_u16_p4', 'u8_u16_p8', 'u8_u32_p8', 'u16_u32_p12', 'u32_u64_p24']),
        L('c13_precision', 'k_c13_prec_{cfg}', ['u8_u16_p4_p8', 'u8_u16_p8_p3', 'u16_u32_p12_p16', 'u32_u64_p24_p8'],
          ['u8_u16_p4_p8', 'u8_u16_p8_p3', 'u16_u32_p12_p16', 'u16_u32_p12_p5', 'u32_u64_p24_p32', 'u32_u64_p24_p8'], soft=[20]),
        L('c13_rt_k1', 'k_c13_rt_k1_{cfg}', ['u8_u16_p4', 'u8_u16_p8'], ['u8_u16_p4', 'u8_u16_p8', 'u8_u32_p8', 'u16_u32_p12', 'u32_u64_p24'], cap=dict(quick=60, thorough=600)),
        L('c13_rt_k2', 'k_c13_rt_k2_{cfg}', [], ['u8_u16_p4', 'u8_u16_p8', 'u16_u32_p12', 'u32_u64_p24'], cap=dict(quick=60, thorough=600)),
    ],
    bounds='one decode->encode step from ANY heads satisfying Inv_chain (via the feature-guarded from_raw_parts hook + Seek), any next data word / end of data, any (cum,p); '
           'head export/import routes on arbitrary data of <= StateBits/WordBits+2 words; precision change round trips from any Inv_chain heads; composed runs k <= 2',
    outside='k >= 3 composed runs (covered inductively by the step obligation); Word/State usize/u128',
    assumptions=['Inv_chain: remainders in [2^(SB-WB-P), 2^(SB-P)), compressed head non-zero; assumed on symbolic heads and proved preserved'],
)

PROPS['C14'] = dict(
    obligations=[
        L('c14_step_odd_precision', 'k_c13_step_{cfg}', ['u8_u16_p3'], ['u8_u16_p3', 'u8_u16_p7', 'u16_u32_p9', 'u32_u64_p17'], soft=[20, 21], fixes=cuts_fixes),
        L('c14_chunk', 'k_c14_chunk_{cfg}', ['u8_u16_p4', 'u8_u16_p8', 'u8_u16_p2', 'u16_u32_p8', 'u32_u64_p16'], ['u8_u16_p4', 'u8_u16_p8', 'u8_u16_p2', 'u16_u32_p8', 'u16_u32_p16', 'u32_u64_p16', 'u32_u64_p32']),
        L('c14_locality_k1', 'k_c13_rt_k1_{cfg}', ['u8_u16_p4', 'u8_u16_p8'], ['u8_u16_p4', 'u8_u16_p8', 'u8_u32_p8', 'u16_u32_p12', 'u32_u64_p24'], cap=dict(quick=60, thorough=600)),
        L('c14_locality_k2', 'k_c13_rt_k2_{cfg}', [], ['u8_u16_p4', 'u8_u16_p8', 'u16_u32_p12', 'u32_u64_p24'], cap=dict(quick=90, thorough=600)),
        L('c14_locality_k3', 'k_c13_rt_k3_{cfg}', [], ['u8_u16_p4', 'u8_u16_p3'], cap=dict(quick=90, thorough=900)),
    ],
    bounds='k <= 3 decoded symbols over arbitrary binary data (4-6 words); replacement model arbitrary at a symbolic position j; chunk reference for PRECISION dividing WordBits',
    outside='PRECISION not dividing WordBits for the explicit chunk reference (locality itself is checked at all listed precisions); k > 3',
    assumptions=[],
)

PROPS['C09'] = dict(
    obligations=[
        L('c09_ans_step', 'k_c09_ans_step_{cfg}', ['u8_u16_p4', 'u8_u16_p8', 'u8_u32_p8', 'u16_u32_p12', 'u32_u64_p24', 'u32_u64_p32'], ['u8_u16_p4', 'u8_u16_p8', 'u8_u32_p8', 'u16_u32_p12', 'u32_u64_p24', 'u32_u64_p32']),
        L('c09_ans', 'k_c09_ans_{cfg}', [], ['u8_u16_p4', 'u8_u16_p8', 'u16_u32_p12', 'u32_u64_p24'], soft=[20], fixes=cuts_fixes),
        K('c09_ans_observational_cbmc', 'kk', 'c09_ans_u8_u16_p4', tq=600),
        L('c09_chain', 'k_c09_chain_{cfg}', ['u8_u16_p4', 'u8_u16_p8', 'u16_u32_p12', 'u32_u64_p24']),
        K('c09_quantizer_wide_symbol', 'models', 'quantizer_wide_symbol_none', tq=600),
        K('c09_uniform_wide_symbol_p8', 'models', 'uniform_u8_p8', tq=600), K('c09_uniform_wide_symbol_p5', 'models', 'uniform_u8_p5', tq=600),
        K('c09_contiguous_outside_none', 'models', 'fixed_contiguous_p4', tiers=('thorough',), tt=3600),
    ],
    bounds='c09_ans_step: one failing encode (impossible symbol or write fault) from ANY invariant state leaves the raw parts unchanged (all widths, fully symbolic); c09_ans / its CBMC twin: '
           'one failing encode (impossible symbol, or write fault at a symbolic point of a bounded sink) after one successful encode from ANY invariant state; observational oracle: '
           'the earlier symbol still decodes and a further encode/decode round trip succeeds; out-of-support symbols over the full symbol type for every model family (Kani harnesses)',
    outside='histories longer than the inductive step; models over symbol types wider than the harness instantiations',
    assumptions=['Inv_ans / Inv_chain on symbolic pre-states'],
)

PROPS['C06'] = dict(
    obligations=[
        L('c06_ans_ref_k1', 'k_c06_ans_k1_{cfg}', ['u8_u16_p4', 'u8_u16_p8', 'u8_u32_p8', 'u16_u32_p12', 'u32_u64_p24'], ['u8_u16_p4', 'u8_u16_p8', 'u8_u32_p8', 'u16_u32_p12', 'u16_u32_p16', 'u32_u64_p24', 'u32_u64_p32']),
        L('c06_ans_ref_k2', 'k_c06_ans_k2_{cfg}', ['u8_u16_p4'], ['u8_u16_p4', 'u8_u16_p8', 'u16_u32_p12', 'u32_u64_p24'], cap=dict(quick=60, thorough=600)),
        L('c06_ans_ref_k3', 'k_c06_ans_k3_{cfg}', [], ['u8_u16_p8'], cap=dict(quick=60, thorough=900)),
        L('c06_range_ref_k1', 'k_c06_range_k1_{cfg}', ['u8_u16_p4', 'u8_u16_p8', 'u16_u32_p12', 'u32_u64_p24'], ['u8_u16_p4', 'u8_u16_p8', 'u8_u32_p8', 'u16_u32_p12', 'u16_u32_p16', 'u32_u64_p24', 'u32_u64_p32']),
        L('c06_range_ref_k2', 'k_c06_range_k2_{cfg}', ['u8_u16_p4'], ['u8_u16_p4', 'u8_u16_p8', 'u16_u32_p12'], cap=dict(quick=60, thorough=600)),
        L('c06_range_ref_k3', 'k_c06_range_k3_{cfg}', [], ['u8_u16_p8'], cap=dict(quick=60, thorough=900)),
        L('c06_range_ref_state_k1', 'k_c06_range_state_k1_{cfg}', ['u8_u16_p4', 'u8_u16_p8', 'u16_u32_p12', 'u32_u64_p24'], fixes=range_fixes),
        L('c06_range_ref_inverted', 'k_c06_range_inv_{cfg}', ['u8_u16_p4', 'u16_u32_p12', 'u32_u64_p24'], ['u8_u16_p4', 'u8_u16_p8', 'u16_u32_p12', 'u16_u32_p16', 'u32_u64_p24'], fixes=range_fixes),
        L('c06_range_ref_state_k2', 'k_c06_range_state_k2_{cfg}', [], ['u8_u16_p4', 'u8_u16_p8', 'u16_u32_p12'], cap=dict(quick=60, thorough=900)),
    ],
    bounds='differential against reference models (textbook rANS; exact wide-integer range coding with the documented sealing rule, no held-back-word bookkeeping): k <= 3 symbols '
           'from the empty coder and from any invariant / Normal raw state, any (cum,p); u32/u64: k <= 2 (ANS), k = 1 (range; the wide integer is a u128)',
    outside='messages longer than k symbols (covered only through the from-any-state one-step form); the published example vectors other than the README rANS / range-coding pair (those two are pinned natively by bin/refpin on every run)',
    assumptions=['reference models live in /verif/harness/src/kernels/refmodel.rs; they share no code with the implementation'],
    native=[('c06_refpin', 'refpin')],
)

PROPS['C12'] = dict(
    obligations=[
        L('c12_ans_step', 'k_c12_ans_{cfg}', ['u8_u16_p4', 'u8_u16_p8', 'u8_u32_p8', 'u16_u32_p12', 'u32_u64_p24'], ['u8_u16_p4', 'u8_u16_p8', 'u8_u32_p8', 'u16_u32_p12', 'u16_u32_p16', 'u16_u64_p16', 'u32_u64_p24', 'u32_u64_p32'], fixes=cuts_fixes),
        L('c12_range_step', 'k_c12_range_{cfg}', ['u8_u16_p4', 'u8_u32_p8', 'u16_u32_p12', 'u32_u64_p24'], ['u8_u16_p4', 'u8_u16_p8', 'u8_u32_p8', 'u16_u32_p12', 'u16_u32_p16', 'u32_u64_p24', 'u32_u64_p32'], fixes=range_fixes, cap=dict(quick=60, thorough=300)),
        L('c12_words_k1', 'k_c12_words_k1_{cfg}', ['u8_u16_p4', 'u16_u32_p12']),
        L('c12_words_k2', 'k_c12_words_k2_{cfg}', ['u8_u16_p4'], ['u8_u16_p4', 'u8_u16_p8'], cap=dict(quick=60, thorough=600)),
        L('c12_words_k3', 'k_c12_words_k3_{cfg}', [], ['u8_u16_p4'], cap=dict(quick=60, thorough=900)),
    ],
    bounds='per-symbol integer potential inequalities (no logarithms) from ANY invariant state, at each listed width; the stated bound itself in product form end to end for k <= 3 at the small widths',
    outside='the telescoping of the per-step inequality to n symbols is ordinary algebra written in DESIGN.md (not machine-checked); floating-point evaluation of the bound',
    assumptions=['Inv_ans / Inv_renc on symbolic pre-states'],
)

PROPS['C16'] = dict(
    obligations=[
        K('c16_stack_lifo', 'bits', 'stack_lifo_script', tq=900),
        K('c16_stack_export_import', 'bits', 'stack_export_import', tq=900),
        K('c16_stack_reexport', 'bits', 'stack_reexport', tq=900),
        K('c16_queue_fifo', 'bits', 'queue_fifo', tq=900),
        K('c16_expgolomb_u8', 'bits', 'expgolomb_u8', tq=900),
        K('c16_expgolomb_u16', 'bits', 'expgolomb_u16', tiers=('thorough',), tt=3600),
        BR('c16_harness_via_irsym', ['expgolomb_u16'], unwind=40),
        K('c16_expgolomb_coders', 'bits', 'expgolomb_through_coders', tiers=('thorough',), tt=7200),
    ],
    bounds='Word=u8 over the real Vec<u8>: symbolic scripts of 6 write/read operations starting from ANY imported content of <= 2 words (any fill level); every bit string of <= 17 bits (all fill levels of the last word: 0,7,8,9,...,17) for '
           'export/re-import and FIFO order; Exp-Golomb over ALL values of u8 and u16 (incl. MAX), truncated codewords at every cut point',
    outside='Word types other than u8 (the coders are generic and only shift/mask within one word); bit strings longer than 17 bits; Exp-Golomb for u32/u64 (same code, loop bounds 65/129)',
    assumptions=[],
)

PROPS['C15'] = dict(
    obligations=[
        K('c15_huffman_n1', 'bits', 'huffman_n1', tq=600), K('c15_huffman_n2', 'bits', 'huffman_n2', tq=600),
        K('c15_huffman_n3', 'bits', 'huffman_n3', tq=900), K('c15_huffman_n4', 'bits', 'huffman_n4', tiers=('thorough',), tt=7200),
        # the same harness bodies driven by a symbolic byte buffer through engine L (harness/src/kernels/bridge.rs)
        L('c15_huffman_bridge', 'k_h_huffman_{cfg}', ['n2', 'n3', 'float_n2', 'float_n3'], ['n2', 'n3', 'float_n2', 'float_n3', 'n4'], soft=[21], unwind=24, feas_ms=2000, explore_cap=dict(quick=400, thorough=3000)),
        K('c15_huffman_float_n2', 'bits', 'huffman_float_n2', tiers=('thorough',), tt=7200), K('c15_huffman_float_n3', 'bits', 'huffman_float_n3', tiers=('thorough',), tt=7200),
    ],
    bounds='all weight vectors of n <= 3 (quick) / n <= 4 (thorough) u8 weights widened to u32 (no overflow), and all f32 triples (NaN => error; zeros, infinities, repeated weights); '
           'optimality against every complete code-length vector in every assignment; tie-breaking pinned by codeword lengths against a heap-free reference merge',
    outside='n > 4 symbols (heap sift loops grow); weights whose sum overflows the weight type',
    assumptions=['float weights are non-negative or NaN (documented precondition)'],
)

M_FIXED = [K('m_fixed_contiguous_p8', 'models', 'fixed_contiguous_p8', tq=1500), K('m_fixed_contiguous_p4', 'models', 'fixed_contiguous_p4', tq=1500),
           K('m_fixed_contiguous_quantile_p8', 'models', 'fixed_contiguous_quantile_p8', tq=1500), K('m_fixed_contiguous_quantile_p4', 'models', 'fixed_contiguous_quantile_p4', tq=1500),
           K('m_fixed_noncontig_p8', 'models', 'fixed_noncontig_p8', tiers=('thorough',), tt=7200, mem_gb=40), K('m_fixed_noncontig_p4', 'models', 'fixed_noncontig_p4', tiers=('thorough',)),
           K('m_fixed_lookup_p3', 'models', 'fixed_lookup_p3', tiers=('thorough',), tt=7200, mem_gb=40), K('m_fixed_lookup_p8', 'models', 'fixed_lookup_p8', tiers=('thorough',)),
           BR('m_fixed_harness_via_irsym', ['fixed_noncontig_p4', 'fixed_noncontig_p8'], ['fixed_noncontig_p4', 'fixed_noncontig_p8', 'fixed_lookup_p3'], explore_cap=dict(quick=300, thorough=3000))]
M_UNIFORM = [K('m_uniform_u8_p8', 'models', 'uniform_u8_p8', tq=600), K('m_uniform_u8_p5', 'models', 'uniform_u8_p5', tq=600)]
M_FLOAT = [BR('m_float_harness_via_irsym', ['fast_f32_n3_p4_norm1'], ['fast_f32_n3_p4_norm1', 'fast_f32_n2_p3_nonorm', 'lazy_f32_n3_p4_valid', 'lazy_vs_eager_f32_n3_p4', 'fast_f32_n3_p24_u32'], cap=dict(quick=60, thorough=600)),
           K('m_fast_f32_n3_p4_norm1', 'models', 'fast_f32_n3_p4_norm1', tq=900), K('m_lazy_f32_n3_p4_valid', 'models', 'lazy_f32_n3_p4_valid', tq=900), K('m_fast_f32_n2_p3_nonorm', 'models', 'fast_f32_n2_p3_nonorm', tq=900)]
M_QUANT = [K('m_quantizer_u8_p4_sup3', 'models', 'quantizer_u8_p4_sup3', tq=1200), K('m_fast_f32_n3_p24_u32', 'models', 'fast_f32_n3_p24_u32', tiers=('thorough',), tt=14400, mem_gb=40)]
MODEL_BOUNDS = ('Probability = u8; supports of <= 3 symbols; PRECISION in {8 (= Probability bits, wrapping total), 4} for fixed-point tables, 4 / 3 for f32 tables '
                '(n=3 normalised to exactly 1.0; n=2 any finite non-negative entries), leaky quantiser over a stub distribution whose CDF is a fully symbolic f64 table '
                'constrained only by the documented contract (monotone, within [0,1]) with an arbitrary finite inverse hint (support 0..=2, P=4); uniform model over all ranges at P in {5,8}; symbolic quantile everywhere')
MODEL_OUTSIDE = ('supports > 3 symbols; Probability wider than u8; f64 tables; real Gaussian/Cauchy/Laplace/binomial CDF code (transcendental; replaced by the most general contract-respecting stub); '
                 'the ..._perfect constructors (optimisation loop over libm::log1p: not encodable); hash-table backed encoder models (std HashMap does not finish under CBMC)')

# heap-backed (Vec / Box<[_]>) model families through engine L (allocator shims in irsym): CBMC does not finish on them
def which5(cfg, tier, seed):
    """one job per model family (the `which` selector is concretised: parallel jobs, nothing is lost); the two direct lookup
    constructors (which = 1, 3) additionally get one job per value of the first table entry (arg0 = p0 in 0..=2^P+1, i.e. the
    kernel's whole input range), because every table-filling loop forks on its entry"""
    P = int(cfg.split('_p')[1]); T = 1 << P
    out = [dict(which=k) for k in (0, 2, 4)]
    if tier == 'quick' and cfg != 'u8_p3': return out   # direct lookup constructors at the other configurations: thorough tier
    for k in (1, 3):
        out += [dict(which=k, arg0=v) for v in range(0, T + 2)]
    return out
M_HEAP = [L('c03_heap_models', 'k_c03_heap_models_{cfg}', ['u8_p3', 'u16_p3'], ['u8_p3', 'u16_p3', 'u8_p4'], unwind=24, fixes=which5, feas_ms=3000, explore_cap=dict(quick=400, thorough=3000))]

HEAP_BOUNDS = ('; engine L over the heap-backed families (ContiguousCategoricalEntropyModel<Vec>, ContiguousLookupDecoderModel<Vec, Box<[_]>>, NonContiguousCategoricalDecoderModel, '
               'NonContiguousLookupDecoderModel and the conversions between them): 3 symbols, Probability u8 / u16, PRECISION 3 (4 in the thorough tier), every table with entries in 0..=2^P+1 '
               '(valid or not), infer_last on and off, arbitrary i16 symbols, every quantile; the Rust allocator is modelled by fresh objects (never null, <= 512 bytes), freed objects become inaccessible')
PROPS['C03'] = dict(obligations=M_FIXED + M_UNIFORM + M_FLOAT + M_QUANT + M_HEAP, bounds=MODEL_BOUNDS + HEAP_BOUNDS, outside=MODEL_OUTSIDE,
                    assumptions=['float inputs satisfy the documented preconditions (finite, non-negative, positive normal sum); stub distribution: monotone table in [0,1]'],
                    stubs=['probability::distribution::{Distribution, Inverse} implemented by a symbolic table (TableDist)'])

def conv_fixes(cfg, tier, seed):
    """PRECISION == Probability::BITS (u8 / 8): the two free table entries are concretised (the 256-entry lookup table is then
    filled by concrete-length memsets and only the quantile forks); small precisions stay fully symbolic"""
    if not cfg.endswith('p8'): return [None]
    import random
    rng = random.Random(seed * 977 + 5)
    pairs = [(1, 1), (1, 254), (254, 1), (100, 100), (85, 86), (128, 127)]
    a = rng.randrange(1, 254); pairs.append((a, rng.randrange(1, 255 - a)))
    if tier != 'quick':
        for _ in range(10):
            a = rng.randrange(1, 254); pairs.append((a, rng.randrange(1, 255 - a)))
    return [dict(arg0=a, arg1=b) for a, b in pairs]

PROPS['C05'] = dict(obligations=[K('m_conv_view', 'models', 'conv_view', tq=900), K('m_conv_symbol_table', 'models', 'conv_symbol_table', tq=900), 
                                 L('c05_conversions', 'k_c05_conv_{cfg}', ['u8_p3', 'u16_p3', 'u8_p8'], ['u8_p3', 'u16_p3', 'u8_p8', 'u8_p4', 'u16_p4'], unwind=40, feas_ms=3000, fixes=conv_fixes, fork_select=False, explore_cap=dict(quick=400, thorough=3000)),
                                 # CBMC runs out of memory (> 60 GB) on the table-building conversions: attempted in the thorough tier only; engine L (c05_conversions) decides them
                                 K('m_conv_lookup', 'models', 'conv_lookup', tiers=('thorough',), mem_gb=40),
                                 K('m_conv_generic_decoder', 'models', 'conv_generic_decoder', tiers=('thorough',), mem_gb=40), K('m_conv_generic_lookup', 'models', 'conv_generic_lookup', tiers=('thorough',), mem_gb=40), K('m_lazy_vs_eager_f32_n3_p4', 'models', 'lazy_vs_eager_f32_n3_p4', tq=900),
                                 K('m_fixed_lookup_p3', 'models', 'fixed_lookup_p3', tiers=('thorough',), tt=7200, mem_gb=40), K('m_quantizer_u8_p4_sup3', 'models', 'quantizer_u8_p4_sup3', tq=1200)],
                    bounds=MODEL_BOUNDS + '; pairwise equality of (left cumulative, probability) on a symbolic symbol and of quantile_function on a symbolic quantile' + HEAP_BOUNDS, outside=MODEL_OUTSIDE,
                    assumptions=[], stubs=['TableDist stub distribution'])

PROPS['C19'] = dict(obligations=M_FIXED + [K('m_fixed_infer_complete_p8', 'models', 'fixed_infer_complete_p8', tq=600), K('m_fixed_infer_complete_p4', 'models', 'fixed_infer_complete_p4', tq=600),
                                           K('m_uniform_rejects', 'models', 'uniform_rejects', tq=300, lib_panics='allow'),
                                           K('m_quantizer_new_rejects_u8', 'models', 'quantizer_new_rejects_u8', tq=300, lib_panics='allow'), K('m_quantizer_new_rejects_i8', 'models', 'quantizer_new_rejects_i8', tq=300, lib_panics='allow'),
                                           K('m_quantizer_new_rejects_too_wide', 'models', 'quantizer_new_rejects_too_wide', tq=300, lib_panics='allow'),
                                           K('m_fast_f32_n2_p3_anyinput', 'models', 'fast_f32_n2_p3_anyinput', tq=900, lib_panics='allow'),
                                           L('c19_heap_models_reject', 'k_c03_heap_models_{cfg}', ['u16_p3'], ['u8_p3', 'u16_p3', 'u8_p4'], unwind=24, fixes=which5, feas_ms=3000, explore_cap=dict(quick=400, thorough=3000))],
                    bounds=MODEL_BOUNDS + HEAP_BOUNDS + '; constructor inputs UNCONSTRAINED (any bit pattern of the floats, any fixed-point table, any infer_last flag, mismatched symbol counts); a library panic is an accepted outcome',
                    outside=MODEL_OUTSIDE + '; Python front end (FFI); recorded known findings are excluded by their region predicates (see known_findings.json)', assumptions=[])

RG = [K('c08_range_guard_normal_u8_u16', 'rangek', 'range_guard_normal_u8_u16', tq=900), K('c08_range_guard_normal_u16_u32', 'rangek', 'range_guard_normal_u16_u32', tq=900),
      # Inverted(n, w): n fixed per harness in the quick tier (symbolic n makes the Vec pushes of seal() explode in CBMC: 900 s timeout / OOM)
      K('c08_range_guard_inverted_n1_u8_u16', 'rangek', 'range_guard_inverted_n1_u8_u16', tq=900), K('c08_range_guard_inverted_n2_u8_u16', 'rangek', 'range_guard_inverted_n2_u8_u16', tq=900),
      K('c08_range_guard_inverted_n1_u16_u32', 'rangek', 'range_guard_inverted_n1_u16_u32', tq=900), K('c08_range_guard_inverted_n2_u16_u32', 'rangek', 'range_guard_inverted_n2_u16_u32', tq=900),
      K('c08_range_guard_inverted_u8_u16', 'rangek', 'range_guard_inverted_u8_u16', tiers=('thorough',), mem_gb=30), K('c08_range_guard_inverted_u16_u32', 'rangek', 'range_guard_inverted_u16_u32', tiers=('thorough',), mem_gb=30),
      K('c08_range_guard_normal_u32_u64', 'rangek', 'range_guard_normal_u32_u64', tiers=('thorough',)), K('c08_range_guard_inverted_u32_u64', 'rangek', 'range_guard_inverted_u32_u64', tiers=('thorough',))]
ANS_VIEWS = [K('c08_ans_view_u8_u16', 'ans', 'view_u8_u16'), K('c08_ans_view_u16_u32', 'ans', 'view_u16_u32'), K('c08_ans_view_u32_u64', 'ans', 'view_u32_u64', tiers=('thorough',)),
             K('c08_ans_binary_view_u8_u16', 'ans', 'guards_u8_u16'), K('c08_ans_binary_view_u16_u32', 'ans', 'guards_u16_u32', tiers=('thorough',))]
PROPS['C08'] = dict(
    obligations=ANS_VIEWS + RG + [BR('c08_harness_via_irsym', ['range_guard_inverted_u8_u16', 'range_guard_inverted_u16_u32', 'range_guard_inverted_u32_u64', 'range_guard_normal_u32_u64', 'ans_view_u32_u64', 'ans_view_u8_u32', 'ans_guards_u32_u64']),
                                  K('c08_range_decoder_view_u8_u16', 'rangek', 'range_decoder_view_u8_u16', tq=600),
                                  K('c08_bit_stack_guard', 'bits', 'stack_guard', tq=900), K('c08_bit_queue_guard', 'bits', 'queue_guard', tq=900)],
    bounds='ANS: any invariant raw state over Vec (bulk <= 1 word) at u8/u16, u16/u32, u32/u64; range encoder: any raw state, Normal or Inverted(n <= 2, w), bulk <= 1 word; '
           'bit coders: every content of <= 9 bits incl. an exactly full word and the empty coder, followed by one further operation. The view must equal an independent arithmetic expectation '
           'of what finishing now returns, and dropping it must restore the raw parts (sufficient for "continuing yields the same output")',
    outside='inverted runs > 2 words, bulk > 1 word (words below the top are never touched by seal/unseal); queries taking &self cannot mutate by the type system (stated, not checked)',
    assumptions=['Inv_ans / Inv_renc on symbolic pre-states'],
)

PROPS['C18'] = dict(
    obligations=[K('c18_ans_sizes_u8_u16', 'ans', 'export_u8_u16'), K('c18_ans_sizes_u16_u32', 'ans', 'export_u16_u32'), K('c18_ans_sizes_u32_u64', 'ans', 'export_u32_u64'),
                 K('c18_ans_valid_bits_u8_u16', 'ans', 'binary_u8_u16'), K('c18_ans_valid_bits_u16_u32', 'ans', 'binary_u16_u32', tiers=('thorough',))] + RG[:6] +
                [K('c18_bit_len_stack', 'bits', 'stack_export_import', tq=900), K('c18_bit_len_queue', 'bits', 'queue_fifo', tq=900),
                 K('c18_float_views', 'models', 'conv_symbol_table', tq=900),
                 BR('c18_harness_via_irsym', ['range_guard_inverted_u8_u16', 'range_guard_inverted_u16_u32', 'range_guard_inverted_u32_u64', 'range_guard_normal_u32_u64', 'ans_binary_u32_u64', 'ans_binary_u16_u32', 'ans_export_u32_u64', 'ans_export_u8_u32']),
                 L('c18_range_sizes', 'k_c18_range_sizes_{cfg}', ['u8_u16', 'u16_u32', 'u32_u64'], ['u8_u16', 'u16_u32', 'u32_u64', 'u8_u32']),
                 L('c18_range_exhaustion', 'k_c02_fresh_k2_{cfg}', ['u8_u16_p4'], ['u8_u16_p4', 'u8_u16_p8', 'u16_u32_p12'], cap=dict(quick=90, thorough=600), explore_cap=dict(quick=400, thorough=3000)),
                 L('c18_range_exhaustion_k1', 'k_c02_rt_k1_{cfg}', RQ, RALL, fixes=range_fixes)],
    bounds='as C01/C02/C08/C16: size and emptiness queries compared with the length of the actual export from any raw state; exhaustion after exactly the encoded symbols (k <= 2); '
           'floating-point views of probabilities equal p / 2^P exactly',
    outside='entropy_base2, cross_entropy_base2, reverse_cross_entropy_base2, kl_divergence_base2, reverse_kl_divergence_base2: they call log2, for which neither CBMC nor the SMT '
            'solvers have a bit-precise model, and the property only promises agreement up to floating-point rounding: this clause of C18 is NOT decided by this family of technique',
    assumptions=[],
)

PROPS['C07'] = dict(
    obligations=[K('c07_ans_seek_u8_u16_p4', 'rangek', 'ans_seek_u8_u16_p4', tq=1200), K('c07_ans_seek_reversed_u8_u16_p4', 'rangek', 'ans_seek_reversed_u8_u16_p4', tq=1200),
                 L('c07_range_seek_k1', 'k_c07_range_seek_k1_{cfg}', ['u8_u16_p4', 'u16_u32_p12', 'u32_u64_p24'], ['u8_u16_p4', 'u8_u16_p8', 'u16_u32_p12', 'u32_u64_p24'], fixes=range_fixes),
                 L('c07_range_seek_from_inverted', 'k_c07_range_seek_inv_{cfg}', ['u8_u16_p4', 'u16_u32_p12', 'u32_u64_p24'], ['u8_u16_p4', 'u8_u16_p8', 'u16_u32_p12', 'u32_u64_p24'], fixes=range_fixes_small),
                 L('c07_range_seek_k2', 'k_c07_range_seek_k2_{cfg}', [], ['u8_u16_p4', 'u8_u16_p8', 'u16_u32_p12'], cap=dict(quick=90, thorough=900), explore_cap=dict(quick=300, thorough=3000))],
    bounds='ANS: k <= 2 symbols into the real Vec, snapshots at every boundary, borrowed / consuming / reversed seekable decoders, two seeks in a symbolic order; '
           'range coder: k <= 2 symbols from the fresh encoder or any Normal raw state, snapshots at every boundary incl. while words are held back, the library Cursor over a slice, two seeks in symbolic order',
    outside='k > 2; the back-end Seek contracts themselves are C17',
    assumptions=['as C01/C02'],
)

PROPS['C17'] = dict(
    obligations=[
        K('c17_cursor_script', 'c17', 'cursor_script_mut_slice', tq=900),
        K('c17_cursor_none_sticky', 'c17', 'cursor_none_is_sticky', tq=600),
        K('c17_cursor_constructors', 'c17', 'cursor_constructors', tq=300),
        K('c17_reversed_equiv', 'c17', 'reversed_equiv_script', tq=900),
        K('c17_revcursor_space_left', 'c17', 'revcursor_space_left', tq=300),
        K('c17_vec_stack', 'c17', 'vec_stack_script', tq=900),
        K('c17_iter_adapters', 'c17', 'iter_adapters', tq=600),
        K('c17_callback_writers', 'c17', 'callback_writers', tq=600),
    ],
    bounds='Word=u8, buffers <= 4 words, symbolic operation scripts of 5 steps drawn from {read (both semantics), write, seek, pos, '
           'remaining/space_left/is_full/is_exhausted} on Cursor<&mut [u8]> / Cursor<&[u8]> / Reverse<Cursor> / Vec<u8>; iterator and callback adapters on <= 4 words',
    outside='longer buffers/scripts; Word types other than u8 (the back ends never do arithmetic on words); SmallVec (its own unsafe code is outside '
            'constriction; the impl only forwards to push/pop/truncate exactly like Vec)',
    assumptions=['cursor pre-states are built by the public constructors (pos <= len)'],
)


# ---------------------------------------------------------------- C20: UB layer over harnesses of the other properties + dedicated harnesses
def _ub(o):
    d = dict(o); d['id'] = 'c20_ub_' + o['id']; d['only_ub'] = True; d['lib_panics'] = 'allow'
    return d

_C20_SHARED = [o for pid in ('C17', 'C01', 'C16', 'C03', 'C19', 'C08') for o in PROPS[pid]['obligations']
               if o['engine'] == 'K' and o['id'] in (
                   'c17_cursor_script', 'c17_reversed_equiv', 'c17_vec_stack',
                   'c01_ctor_u8_u16', 'c01_reimport_u16_u32',
                   'c16_stack_export_import',
                   'm_uniform_u8_p8', 'm_fast_f32_n3_p4_norm1', 'm_fixed_contiguous_p4', 'm_uniform_rejects',
                   'c08_bit_stack_guard')]
_seen = set(); _C20 = []
for o in _C20_SHARED:
    if o['id'] not in _seen:
        _seen.add(o['id']); _C20.append(_ub(o))

PROPS['C20'] = dict(
    obligations=[K('c20_cursor_buf_mut_restricted', 'c17', 'c20_cursor_buf_mut_restricted', tq=600, lib_panics='allow')] + _C20 + [
        L('c20_nopanic_ans', 'k_c10_ans_{cfg}', ['u8_u16_p8', 'u16_u32_p12', 'u32_u64_p24', 'u32_u64_p32']),
        L('c20_nopanic_range', 'k_c10_range_{cfg}', ['u8_u16_p8', 'u32_u64_p24'], ['u8_u16_p8', 'u16_u32_p16', 'u32_u64_p24']),
        L('c20_nopanic_range_step', 'k_c10_range_step_{cfg}', ['u8_u16_p8', 'u32_u64_p24'], soft=INV_SOFT, fixes=range_fixes),
        L('c20_nopanic_chain', 'k_c13_step_{cfg}', ['u8_u16_p4', 'u32_u64_p24'], soft=[20, 21], fixes=cuts_fixes),
    ],
    bounds='UB-class checks of Kani/CBMC (pointer dereference validity incl. get_unchecked(_mut), reaching unreachable_unchecked, std unsafe-precondition assertions such as '
           'NonZero::new_unchecked(0), division by zero) on every path of a selection of harnesses of C01-C19 at their bounds (functional assertions of those harnesses are ignored here), '
           'a dedicated harness for buffers changed through Cursor::buf_mut (restricted to the complement of the recorded known finding), and engine-L queries "no panic / overflow / unreachable / '
           'out-of-object access reachable" at full width (the "only correct because release builds wrap" clause: kernels are built with overflow checks compiled in)',
    outside='thread-related UB (none in the crate); UB that needs allocation failure; layouts other than x86-64; API sequences longer than the harness scripts; AddressSanitizer runs '
            '(a dynamic technique, not part of this family)',
    assumptions=['a panic or an error value is an accepted failure mode'],
)
