#!/usr/bin/env python3
"""Native execution of harness kernels through ctypes (replay of solver models, translator validation).

usage: native.py <libvharness.so> <kernel>   < JSON lines, one argument tuple per line
       each tuple: [{"bits": 16, "val": 123} | {"bytes": [..]} ...]
prints one line per tuple: the u32 return value.  The library is built with panic=abort, so a panic
kills this process with SIGABRT after the lines printed so far (the caller records `abort`)."""
import ctypes, json, sys

CT = {8: ctypes.c_uint8, 16: ctypes.c_uint16, 32: ctypes.c_uint32, 64: ctypes.c_uint64, 1: ctypes.c_uint8}

def main():
    lib = ctypes.CDLL(sys.argv[1])
    fn = getattr(lib, sys.argv[2])
    fn.restype = ctypes.c_uint32
    for line in sys.stdin:
        line = line.strip()
        if not line: continue
        tup = json.loads(line)
        args, keep = [], []
        for a in tup:
            if 'bytes' in a:
                buf = (ctypes.c_uint8 * len(a['bytes']))(*a['bytes']); keep.append(buf)
                args.append(ctypes.cast(buf, ctypes.c_void_p))
            else:
                args.append(CT[a['bits']](a['val']))
        r = fn(*args)
        sys.stdout.write(str(r) + '\n'); sys.stdout.flush()

if __name__ == '__main__':
    main()
