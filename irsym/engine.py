#!/usr/bin/env python3
"""irsym engine: build kernels -> explore (multiprocess) -> solve (portfolio) -> replay/validate natively.

See /verif/DESIGN.md section 3.3-3.5.  Nothing here samples the property: concrete execution appears only
for (a) replaying a solver model against the native build and (b) validating the translator."""
import os, sys, re, json, time, subprocess, random, hashlib, threading, signal
import concurrent.futures as cf
import multiprocessing as mp

HERE = os.path.dirname(os.path.abspath(__file__))
VERIF = os.path.dirname(HERE)
BUILD = os.path.join(VERIF, '.build')
HARNESS = os.path.join(VERIF, 'harness')
PY = sys.executable

SOLVERS = {
    'z3':        (['z3', '-in'], 'lemma'),
    'cvc5':      (['cvc5', '--lang', 'smt2'], 'lemma'),
    'cvc5-iand': (['cvc5', '--lang', 'smt2', '--solve-bv-as-int=iand'], 'native'),
    'cvc5-sum':  (['cvc5', '--lang', 'smt2', '--solve-bv-as-int=sum'], 'native'),
    'cvc5-bitwise': (['cvc5', '--lang', 'smt2', '--solve-bv-as-int=bitwise'], 'native'),
}

# ------------------------------------------------------------------ build
def cargo_env():
    e = dict(os.environ)
    e['CARGO_NET_OFFLINE'] = 'true'
    e.pop('RUSTFLAGS', None)
    return e

def build_kernels(log=None):
    """(re)build the kernel crate against /repo's current working tree: LLVM IR + checked cdylib + plain cdylib"""
    t0 = time.time()
    os.makedirs(BUILD, exist_ok=True)
    tdir = os.path.join(BUILD, 'ir')
    cmd = ['cargo', 'rustc', '--release', '--lib', '--crate-type', 'cdylib', '--target-dir', tdir, '--',
           '--emit=llvm-ir,link', '-C', 'no-vectorize-loops', '-C', 'no-vectorize-slp']
    p = subprocess.run(cmd, cwd=HARNESS, env=cargo_env(), capture_output=True, text=True)
    if p.returncode != 0:
        raise RuntimeError('kernel build failed:\n' + p.stderr[-4000:])
    ll = os.path.join(tdir, 'release', 'deps', 'vharness.ll')
    so = os.path.join(tdir, 'release', 'libvharness.so')
    tdir2 = os.path.join(BUILD, 'plain')
    cmd2 = ['cargo', 'build', '--profile', 'plainrel', '--lib', '--target-dir', tdir2]
    p2 = subprocess.run(cmd2, cwd=HARNESS, env=cargo_env(), capture_output=True, text=True)
    if p2.returncode != 0:
        raise RuntimeError('plain kernel build failed:\n' + p2.stderr[-4000:])
    so_plain = os.path.join(tdir2, 'plainrel', 'libvharness.so')
    return dict(ll=ll, so=so, so_plain=so_plain, build_s=round(time.time() - t0, 1))

# ------------------------------------------------------------------ exploration (worker side)
_MODULE = {}
def load_module(ll):
    from . import core
    key = (ll, os.path.getmtime(ll))
    if key not in _MODULE:
        _MODULE.clear()
        _MODULE[key] = core.parse_module(open(ll).read())
    return _MODULE[key]

def make_args(core, f, ptr_sizes, concrete=None, fix=None):
    """symbolic (or concrete) argument values for kernel f; returns (args, argspec)
    argspec: list of dicts {name, bits} | {name, nbytes} in parameter order"""
    import z3
    args, spec = [], []
    mem_init = []
    for k, (ty, nm) in enumerate(f.params):
        base = 'a%d_%s' % (k, nm.strip('%').strip('"'))
        if ty == 'ptr':
            n = (ptr_sizes or {}).get(k, f.deref.get(k))
            if n is None: raise RuntimeError('pointer parameter %s of %s has no known size' % (nm, f.name))
            spec.append(dict(name=base, nbytes=n))
            if concrete is not None:
                cells = [core.bv(b, 8) for b in concrete[k]['bytes']]
            else:
                cells = [z3.BitVec('%s_b%d' % (base, i), 8) for i in range(n)]
            mem_init.append((k, cells)); args.append(None)
        else:
            w = core.type_bits(ty)
            spec.append(dict(name=base, bits=w))
            if concrete is not None: args.append(core.bv(concrete[k]['val'], w))
            elif fix and (nm.strip('%') in fix or 'arg%d' % k in fix):   # by name, or by position (LLVM may drop a parameter's name)
                fv = fix[nm.strip('%')] if nm.strip('%') in fix else fix['arg%d' % k]
                args.append(core.bv(fv, w)); spec[-1]['fixed'] = fv
            else: args.append(z3.BitVec(base, w))
    return args, spec, mem_init

def explore_kernel(job):
    """worker: symbolic exploration of one kernel; returns serialised queries"""
    t0 = time.time()
    from . import core
    import z3
    ll = job['ll']; kernel = job['kernel']
    try:
        funcs, declares, globs = load_module(ll)
        if kernel not in funcs:
            return dict(kernel=kernel, error='kernel not found in IR (renamed/removed?)')
        f = funcs[kernel]
        ex = core.Executor(funcs, declares, globs, max_visits=job.get('unwind', 12),
                           feas_timeout_ms=job.get('feas_ms', 300), fork_select=job.get('fork_select', False))
        args, spec, mem_init = make_args(core, f, job.get('ptr_sizes'), fix=job.get('fix'))
        st = ex.start(kernel, args)
        for k, cells in mem_init:
            oid = st.mem.alloc(len(cells), cells)
            st.frames[0]['env'][f.params[k][1]] = core.Ptr(oid, core.bv(0, 64))
        ex.run_state(st, deadline=t0 + job.get('explore_cap', 600))
    except Exception as e:
        import traceback
        return dict(kernel=kernel, error='explore exception: %r\n%s' % (e, traceback.format_exc()[-1500:]))
    soft = set(job.get('soft_codes', []))
    allow = job.get('allow', [])          # outcome kinds that are acceptable (e.g. documented panics)
    bad, ok, soft_paths, kinds = [], [], [], {}
    def count(k): kinds[k] = kinds.get(k, 0) + 1
    for pc, kind, info, trace in ex.outcomes:
        if kind == 'infeasible': continue
        if kind == 'ret':
            v = z3.simplify(info)
            if z3.is_bv_value(v):
                r = v.as_long(); count('ret=%d' % r)
                if r == 0: ok.append((pc, trace))
                elif r == 1: pass
                elif r in soft: soft_paths.append((pc, 'ret=%d' % r, trace))
                else: bad.append((pc, 'ret=%d' % r, trace))
            else:
                count('ret=sym')
                cond_bad = z3.And(z3.UGE(v, 2), *[v != s for s in soft]) if soft else z3.UGE(v, 2)
                bad.append((pc + [cond_bad], 'ret>=2', trace))
                ok.append((pc + [v == 0], trace))
                for s in soft: soft_paths.append((pc + [v == s], 'ret=%d' % s, trace))
        else:
            label = kind if info is None or kind.startswith('panic') is False else kind
            count(kind)
            if any(kind.startswith(a) for a in allow): continue
            bad.append((pc, kind + ('' if info is None else ' @' + str(info)[-70:]), trace))
    names = [s['name'] if 'bits' in s else None for s in spec]
    getv = []
    for s in spec:
        if 'bits' in s:
            if 'fixed' not in s: getv.append(s['name'])
        else: getv += ['%s_b%d' % (s['name'], i) for i in range(s['nbytes'])]
    def ser(pc):
        # make sure every argument is declared in the query (so get-value works)
        decl = []
        for s in spec:
            if 'bits' in s:
                if 'fixed' in s: continue
                x = z3.BitVec(s['name'], s['bits']); decl.append(x == x)
            else:
                for i in range(s['nbytes']):
                    x = z3.BitVec('%s_b%d' % (s['name'], i), 8); decl.append(x == x)
        has_div = bool(core.collect_divs(pc))
        native = core.to_smt2(list(pc) + (core.native_hints(pc) if has_div else []) + decl)
        lemma = core.to_smt2(core.div_lemma_form(pc) + decl) if has_div else native
        return dict(native=native, lemma=lemma, has_div=has_div)
    out = dict(kernel=kernel, stats=ex.stats, kinds=kinds, spec=spec, getv=getv,
               explore_s=round(time.time() - t0, 2), called=sorted(ex.called), bad=[], ok=[], soft=[])
    for i, (pc, what, trace) in enumerate(bad):
        q = ser(pc); q.update(id='%s#bad%d' % (kernel, i), what=what, trace=trace[-12:], expect='unsat'); out['bad'].append(q)
    for i, (pc, trace) in enumerate(ok[:job.get('max_ok', 6)]):
        q = ser(pc); q.update(id='%s#ok%d' % (kernel, i), what='ret=0', trace=trace[-12:], expect='sat'); out['ok'].append(q)
    out['n_ok_paths'] = len(ok)
    for i, (pc, what, trace) in enumerate(soft_paths):
        q = ser(pc); q.update(id='%s#soft%d' % (kernel, i), what=what, trace=trace[-12:], expect='unsat'); out['soft'].append(q)
    return out

def concrete_run(job):
    """worker: run the interpreter on concrete argument tuples; returns list of 'ret=N' | kind"""
    from . import core
    import z3
    funcs, declares, globs = load_module(job['ll'])
    f = funcs[job['kernel']]
    res = []
    for tup in job['tuples']:
        ex = core.Executor(funcs, declares, globs, max_visits=job.get('unwind', 12) * 4, concrete=True)
        try:
            args, spec, mem_init = make_args(core, f, job.get('ptr_sizes'), concrete=tup)
            st = ex.start(job['kernel'], args)
            for k, cells in mem_init:
                oid = st.mem.alloc(len(cells), cells)
                st.frames[0]['env'][f.params[k][1]] = core.Ptr(oid, core.bv(0, 64))
            ex.run_state(st)
            outs = [(k, i) for pc, k, i, tr in ex.outcomes if k != 'infeasible']
            if len(outs) != 1: res.append('multi:%d' % len(outs)); continue
            k, i = outs[0]
            if k == 'ret':
                v = z3.simplify(i); res.append('ret=%d' % v.as_long() if z3.is_bv_value(v) else 'ret=sym')
            else: res.append(k)
        except Exception as e:
            res.append('exc:%r' % (e,))
    return res

# ------------------------------------------------------------------ solving (main process, threads manage subprocesses)
def _with_limit(cmd, timeout):
    """give the solver its own hard time limit as well, so that an orphaned solver (driver killed) cannot run on"""
    t = int(timeout) + 5
    if cmd[0] == 'cvc5': return cmd + ['--tlimit=%d' % (t * 1000)]
    if cmd[0].startswith('z3'): return [cmd[0], '-T:%d' % t] + cmd[1:]
    return cmd

def _run_one(cmd, smt, timeout):
    t0 = time.time()
    cmd = _with_limit(cmd, timeout)
    try:
        p = subprocess.Popen(cmd, stdin=subprocess.PIPE, stdout=subprocess.PIPE, stderr=subprocess.PIPE, text=True, start_new_session=True)
    except Exception as e:
        return 'error:%r' % (e,), 0.0, ''
    try:
        out, err = p.communicate(smt, timeout=timeout)
    except subprocess.TimeoutExpired:
        try: os.killpg(p.pid, signal.SIGKILL)
        except Exception: pass
        p.wait()
        return 'timeout', time.time() - t0, ''
    lines = [l for l in out.strip().split('\n') if l.strip()]
    first = lines[0].strip() if lines else ''
    if first in ('sat', 'unsat'):
        return first, time.time() - t0, '\n'.join(lines[1:])
    if first == 'unknown': return 'unknown', time.time() - t0, ''
    return 'error:' + (out + err)[:200].replace('\n', ' '), time.time() - t0, ''

def _race(tasks, timeout):
    """tasks: list of (name, cmd, smt). first definitive answer wins, others are killed."""
    procs = {}
    t0 = time.time()
    for name, cmd, smt in tasks:
        try:
            p = subprocess.Popen(_with_limit(cmd, timeout), stdin=subprocess.PIPE, stdout=subprocess.PIPE, stderr=subprocess.PIPE, text=True, start_new_session=True)
            p.stdin.write(smt); p.stdin.close()
            procs[name] = p
        except Exception:
            pass
    res = {}
    verdict = ('undecided', None, time.time() - t0)
    while procs and time.time() - t0 < timeout:
        for name, p in list(procs.items()):
            if p.poll() is not None:
                out = p.stdout.read(); err = p.stderr.read()
                lines = [l for l in out.strip().split('\n') if l.strip()]
                first = lines[0].strip() if lines else ''
                res[name] = first if first in ('sat', 'unsat', 'unknown') else 'error:' + (out + err)[:120].replace('\n', ' ')
                del procs[name]
                if first in ('sat', 'unsat'):
                    verdict = (first, name, time.time() - t0)
                    break
        if verdict[0] in ('sat', 'unsat'): break
        time.sleep(0.02)
    for name, p in procs.items():
        try: os.killpg(p.pid, signal.SIGKILL)
        except Exception: pass
        try: p.wait(timeout=5)
        except Exception: pass
        res[name] = 'killed'
    return verdict, res

def parse_values(txt):
    vals = {}
    for m in re.finditer(r'\(\s*([^\s()]+)\s+(#x[0-9a-fA-F]+|#b[01]+|\(_ bv(\d+) \d+\))\s*\)', txt):
        nm, v = m.group(1), m.group(2)
        if v.startswith('#x'): vals[nm] = int(v[2:], 16)
        elif v.startswith('#b'): vals[nm] = int(v[2:], 2)
        else: vals[nm] = int(m.group(3))
    return vals

def solve_query(q, getv, cap, quick_cap=3.0, want_model=False):
    """returns dict(verdict, solver, t, model?) ; verdict in sat/unsat/undecided"""
    t0 = time.time()
    # stage 1: z3 on the lemma form, short cap (decides small widths and most satisfiable paths on one core)
    v, t, _ = _run_one(SOLVERS['z3'][0], q['lemma'], min(quick_cap, cap)) if quick_cap > 0 else ('skipped', 0, '')
    tried = {'z3': v}
    who = 'z3'
    if v not in ('sat', 'unsat'):
        tasks = [(n, cmd, q[enc]) for n, (cmd, enc) in SOLVERS.items() if not (n != 'cvc5-iand' and False)]
        if not q['has_div']:
            pass
        (v, who, t2), res = _race(tasks, max(cap - (time.time() - t0), 1.0))
        tried.update(res)
    out = dict(id=q['id'], what=q['what'], verdict=v if v in ('sat', 'unsat') else 'undecided', solver=who,
               t=round(time.time() - t0, 2), tried=tried, expect=q['expect'])
    if out['verdict'] == 'sat' and want_model:
        cmd, enc = SOLVERS[who]
        smt = '(set-option :produce-models true)\n' + q[enc] + '(get-value (' + ' '.join(getv) + '))\n'
        v2, t3, rest = _run_one(cmd, smt, cap)
        if v2 != 'sat':
            v2, t3, rest = _run_one(SOLVERS['z3'][0], '(set-option :produce-models true)\n' + q['lemma'] + '(get-value (' + ' '.join(getv) + '))\n', cap)
        out['model'] = parse_values(rest) if v2 == 'sat' else None
    return out

def model_to_tuple(spec, model):
    tup = []
    for s in spec:
        if 'bits' in s: tup.append(dict(bits=s['bits'] if s['bits'] in (8, 16, 32, 64) else 8, val=s['fixed'] if 'fixed' in s else model.get(s['name'], 0)))
        else: tup.append(dict(bytes=[model.get('%s_b%d' % (s['name'], i), 0) for i in range(s['nbytes'])]))
    return tup

def run_native(so, kernel, tuples, timeout=60):
    """returns list of 'ret=N' | 'abort' per tuple"""
    res = []
    i = 0
    while i < len(tuples):
        inp = '\n'.join(json.dumps(t) for t in tuples[i:]) + '\n'
        p = subprocess.run([PY, os.path.join(HERE, 'native.py'), so, kernel], input=inp, capture_output=True, text=True, timeout=timeout)
        lines = [l for l in p.stdout.split('\n') if l.strip()]
        res += ['ret=%s' % l.strip() for l in lines]
        i += len(lines)
        if p.returncode >= 64 and p.returncode < 128 and i < len(tuples):
            res.append('ret=%d' % (p.returncode - 64)); i += 1      # verif_exit(code) of the harness bridge
        elif p.returncode != 0 and i < len(tuples):
            res.append('abort'); i += 1
        elif p.returncode == 0:
            break
    return res

def biased_tuples(spec, n, rng):
    def pick(bits):
        m = (1 << bits) - 1
        c = rng.random()
        if c < 0.25: return rng.choice([0, 1, 2, 3, m, m - 1, m >> 1, (m >> 1) + 1])
        if c < 0.5: return (1 << rng.randrange(bits)) + rng.choice([-1, 0, 1]) & m
        if c < 0.7: return rng.randrange(0, min(m, 16) + 1)
        return rng.randrange(0, m + 1)
    out = []
    for _ in range(n):
        tup = []
        for s in spec:
            if 'bits' in s: tup.append(dict(bits=s['bits'], val=s['fixed'] if 'fixed' in s else pick(s['bits'])))
            else: tup.append(dict(bytes=[pick(8) for _ in range(s['nbytes'])]))
        out.append(tup)
    return out

# ------------------------------------------------------------------ orchestration
def decide_kernels(jobs, build, cap=60, workers=14, seed=0, validate_n=40, log=print):
    """jobs: list of dict(kernel, unwind, soft_codes, allow, ptr_sizes, cap?).  Returns list of result dicts:
       status in held / violated / undecided / machinery-error, plus counters for the evidence file."""
    t_start = time.time()
    for n, j in enumerate(jobs): j['ll'] = build['ll']; j['jid'] = n
    ctx = mp.get_context('fork')
    results = {}
    with ctx.Pool(min(workers, max(1, len(jobs)))) as pool:
        explored = pool.map(explore_kernel, jobs, chunksize=1)
        # ---- solve all queries with a thread pool (threads only babysit solver subprocesses)
        items = []
        for job, ex in zip(jobs, explored):
            if 'error' in ex: continue
            for q in ex['bad']: items.append((job, ex, q, True))
            for q in ex['soft']: items.append((job, ex, q, False))
            for q in ex['ok']: items.append((job, ex, q, True))
        def work(it):
            job, ex, q, want = it
            return solve_query(q, ex['getv'], job.get('cap', cap), want_model=want)
        with cf.ThreadPoolExecutor(max_workers=max(2, workers // 2)) as tp:
            solved = list(tp.map(work, items))
        # retry what stayed undecided once, alone-ish, with a 3x cap (DESIGN.md 3.5)
        redo = [i for i, s in enumerate(solved) if s['verdict'] == 'undecided' and items[i][2]['expect'] == 'unsat'][:int(os.environ.get('VERIF_MAX_RETRY', '8'))]
        if redo:
            def work2(i):
                job, ex, q, want = items[i]
                return solve_query(q, ex['getv'], 2 * job.get('cap', cap), quick_cap=0.0, want_model=want)
            with cf.ThreadPoolExecutor(max_workers=max(1, workers // 4)) as tp:
                for i, s in zip(redo, tp.map(work2, redo)):
                    s['retried'] = True; s['t'] += solved[i]['t']; solved[i] = s
        by_kernel = {}
        for (job, ex, q, want), s in zip(items, solved):
            by_kernel.setdefault(job['jid'], []).append((q, s))
        # ---- translator validation: concrete interpreter vs native, on solver models of ok-paths + biased random
        vjobs = []
        rng = random.Random(seed)
        for job, ex in zip(jobs, explored):
            if 'error' in ex: continue
            tuples = []
            for q, s in by_kernel.get(job['jid'], []):
                if s.get('model') and s['verdict'] == 'sat':
                    tuples.append(model_to_tuple(ex['spec'], s['model']))
            tuples += biased_tuples(ex['spec'], validate_n, rng)
            vjobs.append(dict(ll=build['ll'], kernel=job['kernel'], jid=job['jid'], tuples=tuples, unwind=job.get('unwind', 12), ptr_sizes=job.get('ptr_sizes')))
        conc = pool.map(concrete_run, vjobs, chunksize=1)
    nat = {}
    with cf.ThreadPoolExecutor(max_workers=workers) as tp:
        futs = {vj['jid']: tp.submit(run_native, build['so'], vj['kernel'], vj['tuples']) for vj in vjobs}
        for k, fu in futs.items(): nat[k] = fu.result()
    conc_by = {vj['jid']: (vj, c) for vj, c in zip(vjobs, conc)}
    out = []
    for job, ex in zip(jobs, explored):
        k = job['kernel']
        r = dict(kernel=k, engine='L')
        if 'error' in ex:
            r.update(status='undecided', reason=ex['error']); out.append(r); continue
        qs = by_kernel.get(job['jid'], [])
        bad = [(q, s) for q, s in qs if q['id'].split('#')[1].startswith('bad')]
        oks = [(q, s) for q, s in qs if q['id'].split('#')[1].startswith('ok')]
        softs = [(q, s) for q, s in qs if q['id'].split('#')[1].startswith('soft')]
        r.update(paths=ex['stats']['paths'], instrs=ex['stats'].get('instrs', 0), feas_checks=ex['stats'].get('feas_checks', 0), pruned=ex['stats'].get('pruned', 0), kinds=ex['kinds'], explore_s=ex['explore_s'], called=ex['called'],
                 queries=len(qs), solver_s=round(sum(s['t'] for q, s in qs), 2),
                 bad_paths=len(bad), bad_unsat=sum(1 for q, s in bad if s['verdict'] == 'unsat'),
                 vacuity_ok=any(s['verdict'] == 'sat' for q, s in oks), n_ok_paths=ex['n_ok_paths'],
                 soft_sat=[q['what'] for q, s in softs if s['verdict'] == 'sat'],
                 solvers={}, undecided=[], spec=ex['spec'])
        for q, s in qs:
            if s['verdict'] in ('sat', 'unsat'): r['solvers'][s['solver']] = r['solvers'].get(s['solver'], 0) + 1
        # translator validation
        vj, c = conc_by[job['jid']]; n = nat[job['jid']]
        mism = [(t, a, b) for t, a, b in zip(vj['tuples'], c, n) if not (a == b or (a.startswith('panic') and b == 'abort') or (a == 'unreachable' and b == 'abort') or a.startswith('unsupported') or a.startswith('unwind'))]
        r['validated'] = len(vj['tuples']); r['validation_mismatch'] = len(mism)
        r['validation_nontrivial'] = sum(1 for b in n if b != 'ret=1')
        if mism:
            r.update(status='machinery-error', reason='interpreter/native mismatch: %s interp=%s native=%s' % (json.dumps(mism[0][0]), mism[0][1], mism[0][2]))
            out.append(r); continue
        unsupported = [q['what'] for q, s in bad if q['what'].startswith('unsupported') or q['what'].startswith('explore-timeout') or q['what'].startswith('unwind-exceeded')]
        sat = [(q, s) for q, s in bad if s['verdict'] == 'sat' and not (q['what'].startswith('unsupported') or q['what'].startswith('explore-timeout') or q['what'].startswith('unwind-exceeded'))]
        und = [(q, s) for q, s in bad if s['verdict'] == 'undecided']
        if sat:
            # replay natively (checked build and plain release build)
            q, s = sat[0]
            cex = None
            for q, s in sat:
                if not s.get('model'): continue
                tup = model_to_tuple(ex['spec'], s['model'])
                n1 = run_native(build['so'], k, [tup])[0]
                n2 = run_native(build['so_plain'], k, [tup])[0]
                expect_abort = not q['what'].startswith('ret')
                repro = (n1 == 'abort') if expect_abort else (n1 == q['what'] or (q['what'] == 'ret>=2' and n1.startswith('ret=') and int(n1[4:]) >= 2))
                cex = dict(kernel=k, what=q['what'], args=tup, model={a: hex(v) for a, v in s['model'].items() if not a.startswith('div')},
                           native_checked=n1, native_release=n2, reproduced=bool(repro), trace=q['trace'], solver=s['solver'], t=s['t'])
                if repro: break
            if cex is None:
                r.update(status='undecided', reason='sat without model'); out.append(r); continue
            r['cex'] = cex
            if cex['reproduced']: r['status'] = 'violated'
            else: r.update(status='machinery-error', reason='solver model does not reproduce natively: ' + json.dumps(cex)[:400])
            out.append(r); continue
        if unsupported:
            r.update(status='undecided', reason='unsupported IR / exploration cap / unwinding bound: ' + unsupported[0]); out.append(r); continue
        if und:
            r['undecided'] = [dict(what=q['what'], tried=s['tried']) for q, s in und]
            r.update(status='undecided', reason='%d of %d bad paths undecided within cap' % (len(und), len(bad))); out.append(r); continue
        if r['soft_sat']:
            r.update(status='undecided', reason='proof-structure clause not established (codes %s satisfiable): the induction does not go through, no defect shown' % sorted(set(r['soft_sat']))); out.append(r); continue
        if not r['vacuity_ok']:
            r.update(status='undecided', reason='vacuity: verdict 0 not shown reachable (%d ok paths)' % ex['n_ok_paths']); out.append(r); continue
        r['status'] = 'held'
        out.append(r)
    return out

if __name__ == '__main__':
    # ad-hoc: python3-vt -m irsym.engine k1 k2 ...
    b = build_kernels()
    print('build', b)
    fix = json.loads(os.environ.get('FIX', 'null'))
    jobs = [dict(kernel=k, unwind=int(os.environ.get('UNW', '12')), soft_codes=[20], fix=fix, fork_select=bool(int(os.environ.get('FS', '0')))) for k in sys.argv[1:]]
    for r in decide_kernels(jobs, b, cap=int(os.environ.get('CAP', '60'))):
        r.pop('spec', None); r.pop('called', None)
        print(json.dumps(r)[:1500])
