#!/usr/bin/env python3
"""irsym core: path-wise symbolic execution of rustc-emitted LLVM IR -> SMT terms (z3 term library).

Engine L of /verif/DESIGN.md (section 3.3).  The executor interprets the textual LLVM IR that
`rustc --emit=llvm-ir` produced for the `extern "C"` kernels of /verif/harness (which call the real
generic `constriction` code at one concrete instantiation).  Arguments are symbolic bit-vectors;
every path ends in an *outcome* `(path condition, kind, info)`:

  ret            the kernel returned (info = return value term)
  panic[:what]   a call to core::panicking::* / unwrap_failed / ... is reachable
  unreachable    an `unreachable` terminator that is not preceded by a panic call
  ub             out-of-object / uninitialised memory access
  unwind-exceeded  loop bound exceeded on a feasible path (= unwinding assertion)
  unsupported    IR construct outside the supported subset (=> obligation undecided)

Design points (learned from the prototype, see DESIGN.md):
  * terms are built structure-preserving (constant folding only); full simplification is used only
    for branch conditions and memory offsets;
  * symbolic memory offsets fork over the feasible candidates instead of building ite chains;
  * a memory cell remembers the whole stored value, aligned reloads return the original term;
  * udiv/urem are kept native; the division-lemma encoding is produced at serialisation time.
"""
import re, sys, time, os
import z3

# ---------------------------------------------------------------- parsing
class Func:
    def __init__(self, name, params, rettype):
        self.name, self.params, self.rettype = name, params, rettype
        self.deref = {}       # param index -> dereferenceable bytes
        self.blocks = {}      # label -> list of instruction strings
        self.order = []

def split_top(s, sep=','):
    out, depth, cur, inq = [], 0, '', False
    for ch in s:
        if ch == '"': inq = not inq
        if not inq:
            if ch in '([{<': depth += 1
            elif ch in ')]}>': depth -= 1
            elif ch == sep and depth == 0:
                out.append(cur.strip()); cur = ''; continue
        cur += ch
    if cur.strip(): out.append(cur.strip())
    return out

LABEL_RE = re.compile(r'^("[^"]+"|[-\w.$]+):')

def parse_cstring(s):
    out = bytearray(); i = 0
    while i < len(s):
        if s[i] == '\\':
            out.append(int(s[i+1:i+3], 16)); i += 3
        else:
            out.append(ord(s[i])); i += 1
    return bytes(out)

def parse_const_bytes(ty, init):
    """bytes of a constant initializer (ints, int arrays, c"..", packed structs of those); None if it
    contains anything else (pointers...)."""
    ty = ty.strip(); init = init.strip()
    m = re.match(r'i(\d+)$', ty)
    if m:
        n = (int(m.group(1)) + 7) // 8
        if init in ('zeroinitializer', 'undef', 'poison'): return bytes(n)
        if init == 'true': return (1).to_bytes(n, 'little')
        if init == 'false': return bytes(n)
        try: return (int(init) % (1 << (8 * n))).to_bytes(n, 'little')
        except ValueError: return None
    m = re.match(r'\[(\d+) x (.*)\]$', ty)
    if m:
        cnt, ety = int(m.group(1)), m.group(2)
        if init == 'zeroinitializer':
            try: return bytes(cnt * type_size(ety))
            except ValueError: return None
        if init.startswith('c"'): return parse_cstring(init[2:-1])
        if init.startswith('['):
            out = b''
            for el in split_top(init[1:-1]):
                t, v = parse_type_prefix(el)
                b = parse_const_bytes(t, v)
                if b is None: return None
                out += b
            return out
        return None
    if ty.startswith('<{') or ty.startswith('{'):
        inner_t = ty[2:-2] if ty.startswith('<{') else ty[1:-1]
        if init == 'zeroinitializer':
            try: return bytes(sum(type_size(t) for t in split_top(inner_t)))
            except ValueError: return None
        inner_v = init[2:-2] if init.startswith('<{') else init[1:-1]
        out = b''
        for el in split_top(inner_v):
            t, v = parse_type_prefix(el)
            if t == 'ptr': return None
            b = parse_const_bytes(t, v)
            if b is None: return None
            out += b
        return out
    return None

def parse_module(text):
    funcs, declares, globs = {}, set(), {}
    lines = text.split('\n')
    i = 0
    TYPEDEFS.clear()
    for ln in lines:
        m = re.match(r'(%"[^"]+"|%[-\w.$]+) = type (.*)$', ln)
        if m: TYPEDEFS[m.group(1)] = m.group(2).strip()
    aliases = {}
    for ln in lines:
        m = re.match(r'@("[^"]+"|[-\w.$]+) = .*\balias\b.*@("[^"]+"|[-\w.$]+)\s*$', ln)
        if m: aliases[m.group(1).strip('"')] = m.group(2).strip('"')
    while i < len(lines):
        ln = lines[i]
        if ln.startswith('@'):
            m = re.match(r'(@"[^"]+"|@[-\w.$]+) = (?:[\w_]+ )*?(constant|global) (.*)$', ln)
            if m:
                rest = re.sub(r',\s*align \d+\s*$', '', m.group(3))
                try:
                    ty, init = parse_type_prefix(rest)
                    globs[m.group(1)] = (m.group(2), parse_const_bytes(ty, init))
                except Exception:
                    globs[m.group(1)] = (m.group(2), None)
        if ln.startswith('declare '):
            m = re.search(r'@("[^"]+"|[-\w.$]+)\(', ln)
            if m: declares.add(m.group(1).strip('"'))
        if ln.startswith('define '):
            m = re.search(r'@("[^"]+"|[-\w.$]+)\((.*)\)[^()]*\{\s*$', ln)
            name = m.group(1).strip('"')
            params = []; deref = {}
            for k, p in enumerate(split_top(m.group(2))):
                toks = p.split()
                params.append((parse_type_prefix(p)[0], toks[-1]))
                dm = re.search(r'dereferenceable\((\d+)\)', p)
                if dm: deref[k] = int(dm.group(1))
            pre = ln[:ln.index('@')]
            rt = pre.replace('define', '')
            rt = re.sub(r'range\([^)]*\)', '', rt)
            rt = re.sub(r'\b(internal|private|fastcc|noundef|zeroext|signext|nonnull|hidden|dso_local|unnamed_addr|noalias|align \d+)\b', '', rt).strip()
            f = Func(name, params, rt); f.deref = deref
            i += 1
            cur = None
            while not lines[i].startswith('}'):
                l = lines[i]
                s = l.strip()
                if s == '' or s.startswith(';'):
                    i += 1; continue
                lm = LABEL_RE.match(l)
                if lm and not l.startswith(' '):
                    cur = lm.group(1).strip('"'); f.blocks[cur] = []; f.order.append(cur)
                else:
                    if cur is None:
                        cur = '%entry0'; f.blocks[cur] = []; f.order.append(cur)
                    if s.startswith('switch') and s.endswith('['):
                        while not lines[i].strip().endswith(']'):
                            i += 1; s += ' ' + lines[i].strip()
                    f.blocks[cur].append(s)
                i += 1
            funcs[name] = f
        i += 1
    for a, b in aliases.items():
        if b in funcs and a not in funcs: funcs[a] = funcs[b]
    return funcs, declares, globs

def parse_type_prefix(s):
    """return (type string, rest) for a string starting with a type"""
    s = s.strip()
    if s.startswith('{') or s.startswith('[') or s.startswith('<'):
        depth = 0
        for k, ch in enumerate(s):
            if ch in '{[<': depth += 1
            elif ch in '}]>':
                depth -= 1
                if depth == 0:
                    return s[:k+1], s[k+1:].strip()
    m = re.match(r'(i\d+|ptr|void|label|metadata|float|double)\b', s)
    if not m:
        m = re.match(r'(%"[^"]+"|%[-\w.$]+)', s)
        if m and m.group(1) in TYPEDEFS: return m.group(1), s[m.end():].strip()
        raise ValueError('type? ' + s)
    return m.group(1), s[m.end():].strip()

def type_bits(t):
    t = t.strip()
    if t == 'ptr': return 64
    if t == 'float': return 32      # floats are carried as their IEEE-754 bit patterns
    if t == 'double': return 64
    m = re.match(r'i(\d+)$', t)
    if m: return int(m.group(1))
    raise ValueError('bits of ' + t)

TYPEDEFS = {}

def type_layout(t):
    """(size, align) in bytes"""
    t = t.strip()
    if t in TYPEDEFS: return type_layout(TYPEDEFS[t])
    if t == 'ptr': return 8, 8
    if t == 'float': return 4, 4
    if t == 'double': return 8, 8
    m = re.match(r'i(\d+)$', t)
    if m:
        n = (int(m.group(1)) + 7) // 8
        a = 1
        while a < n and a < 16: a *= 2
        return (n + a - 1) // a * a if n > 8 else n, min(a, 16) if n > 8 else a
    m = re.match(r'\[(\d+) x (.*)\]$', t)
    if m:
        sz, al = type_layout(m.group(2)); return int(m.group(1)) * sz, al
    if t.startswith('<{') and t.endswith('}>'):
        return sum(type_layout(x)[0] for x in split_top(t[2:-2])), 1
    if t.startswith('{') and t.endswith('}'):
        off, al = 0, 1
        for x in split_top(t[1:-1]):
            sz, a = type_layout(x); off = (off + a - 1) // a * a + sz; al = max(al, a)
        return (off + al - 1) // al * al, al
    raise ValueError('layout of ' + t)

def struct_field_offset(t, idx):
    t = t.strip()
    if t in TYPEDEFS: t = TYPEDEFS[t]
    packed = t.startswith('<{')
    fields = split_top(t[2:-2] if packed else t[1:-1])
    off = 0
    for k, x in enumerate(fields):
        sz, a = type_layout(x)
        if not packed: off = (off + a - 1) // a * a
        if k == idx: return off, x
        off += sz
    raise ValueError('field %d of %s' % (idx, t))

def type_size(t):
    return type_layout(t)[0]

ATTR_WORDS = {'noundef','nonnull','zeroext','signext','noalias','readonly','writeonly','nocapture','immarg','returned','inreg','nofree'}
def strip_attrs(s):
    s = re.sub(r'range\((?:[^()]|\([^()]*\))*\)', '', s)
    s = re.sub(r'(captures|dereferenceable|dereferenceable_or_null|align)\s*\([^)]*\)', '', s)
    s = re.sub(r'(sret|byval|byref|preallocated|inalloca|elementtype)\s*\((?:[^()]|\([^()]*\))*\)', '', s)
    s = re.sub(r'\balign \d+', '', s)
    return ' '.join(w for w in s.split() if w not in ATTR_WORDS)

# ---------------------------------------------------------------- values
class Ptr:
    __slots__ = ('obj', 'off')
    def __init__(self, obj, off): self.obj, self.off = obj, off  # off: z3 BV64

class Concretize(Exception):
    def __init__(self, term, cands, other=('ub', 'oob/unaligned symbolic access')): self.term, self.cands, self.other = term, cands, other

class ForkBool(Exception):
    def __init__(self, cond): self.cond = cond

class Outcome(Exception):
    def __init__(self, kind, info=None): self.kind, self.info = kind, info

def bv(v, w): return z3.BitVecVal(v, w)
SIMP_OPTS = dict(bv_le2extract=False, bv_extract_prop=False)
def full_simp(e): return z3.simplify(e, **SIMP_OPTS)
def is_const(e): return z3.is_bv_value(e) or z3.is_true(e) or z3.is_false(e)
def simp(e):
    """constant-fold only (keeps term structure for the int-blaster)"""
    if is_const(e): return e
    if e.num_args() > 0 and all(is_const(c) for c in e.children()):
        return z3.simplify(e)
    if z3.is_app_of(e, z3.Z3_OP_ITE):
        c = e.arg(0)
        if z3.is_true(c): return e.arg(1)
        if z3.is_false(c): return e.arg(2)
    return e

def as_bool(v):
    if z3.is_app_of(v, z3.Z3_OP_ITE) and z3.is_bv_value(v.arg(1)) and z3.is_bv_value(v.arg(2)) and v.arg(1).as_long() == 1 and v.arg(2).as_long() == 0:
        return v.arg(0)
    if z3.is_bv_value(v): return z3.BoolVal(v.as_long() == 1)
    return v == bv(1, 1)

def from_bool(c):
    if z3.is_true(c): return bv(1, 1)
    if z3.is_false(c): return bv(0, 1)
    return z3.If(c, bv(1, 1), bv(0, 1))

class Mem:
    def __init__(self):
        self.objs = {}   # id -> list of cells (z3 BV8 | ['v', term, k] | ('p', Ptr, k) | None)
        self.n = 0
    def alloc(self, size, init=None):
        self.n += 1
        self.objs[self.n] = [init] * size if not isinstance(init, list) else list(init)
        return self.n
    def clone(self):
        m = Mem(); m.n = self.n; m.objs = {k: list(v) for k, v in self.objs.items()}; return m

class State:
    def __init__(self):
        self.mem = Mem(); self.pc = []; self.frames = []; self.conc = {}; self.bools = {}; self.trace = []; self.model = None
    def clone(self):
        s = State(); s.mem = self.mem.clone(); s.pc = list(self.pc); s.conc = dict(self.conc); s.bools = dict(self.bools)
        s.trace = list(self.trace); s.model = self.model
        s.frames = [dict(fn=f['fn'], env=dict(f['env']), block=f['block'], prev=f['prev'], idx=f['idx'], dest=f['dest']) for f in self.frames]
        return s

PANIC_KINDS = ('add_overflow','sub_overflow','mul_overflow','shl_overflow','shr_overflow','neg_overflow',
               'div_overflow','rem_overflow','div_by_zero','rem_by_zero','bounds_check','unwrap_failed',
               'expect_failed','slice_index','slice_start_index','slice_end_index','panic_nounwind',
               'panic_fmt','panic_explicit','assert_failed','unreachable_display', 'panic_cannot_unwind',
               'precondition_check')

class Executor:
    def __init__(self, funcs, declares, globs=None, max_visits=12, feas_timeout_ms=300, fork_select=False, concrete=False):
        self.funcs, self.declares, self.globs = funcs, declares, globs or {}
        self.outcomes = []   # (pc list, kind, info, trace)
        self.max_visits = max_visits
        self.feas_timeout_ms = feas_timeout_ms
        self.fork_select = fork_select
        self.concrete = concrete
        self.stats = dict(paths=0, forks=0, feas_checks=0, pruned=0, instrs=0)
        self.called = set()

    # ---- operand evaluation
    def val(self, st, ty, tok):
        env = st.frames[-1]['env']
        tok = tok.strip()
        if tok.startswith('%'):
            return env[tok]
        if ty == 'ptr':
            if tok == 'null': return Ptr(0, bv(0, 64))
            if tok.startswith('@'): return Ptr(('g', tok), bv(0, 64))
            if tok in ('undef', 'poison'): return Ptr(0, bv(0, 64))
            m = re.match(r'getelementptr\s+(?:inbounds\s+|nuw\s+|nusw\s+)*\((.*)\)$', tok)
            if m:
                parts = split_top(m.group(1))
                base = self.val(st, 'ptr', parts[1].split()[-1])
                if len(parts) == 3 and parts[0].strip() == 'i8':
                    ity, itok = parse_type_prefix(parts[2])
                    return Ptr(base.obj, simp(base.off + bv(int(itok), 64)))
            m = re.match(r'inttoptr\s+\(i64\s+(\d+)\s+to\s+ptr\)$', tok)
            if m:   # dangling (aligned, non-null) pointer of an empty Vec / slice: an address inside the null object; any access through it is UB
                return Ptr(0, bv(int(m.group(1)), 64))
            raise Outcome('unsupported', 'ptr const ' + tok)
        if ty.startswith('{'):
            if tok in ('undef', 'poison', 'zeroinitializer'):
                return [self.val(st, t, 'undef' if tok != 'zeroinitializer' else '0') for t in split_top(ty[1:-1])]
            if tok.startswith('{'):
                out = []
                for el in split_top(tok[1:-1]):
                    t, v = parse_type_prefix(el); out.append(self.val(st, t, v))
                return out
            raise Outcome('unsupported', 'agg const ' + tok)
        if ty in ('float', 'double'):
            import struct
            if tok in ('undef', 'poison', 'zeroinitializer'): return bv(0, type_bits(ty))
            try:
                if tok.startswith('0x'):     # LLVM prints non-trivial constants as the bit pattern of the value as a double
                    d = struct.unpack('<d', struct.pack('<Q', int(tok, 16)))[0]
                else:
                    d = float(tok)
            except Exception:
                raise Outcome('unsupported', 'float const ' + tok)
            if ty == 'double': return bv(struct.unpack('<Q', struct.pack('<d', d))[0], 64)
            return bv(struct.unpack('<I', struct.pack('<f', d))[0], 32)
        w = type_bits(ty)
        if tok == 'true': return bv(1, 1)
        if tok == 'false': return bv(0, 1)
        if tok in ('undef', 'poison'): return bv(0, w)
        if tok == 'zeroinitializer': return bv(0, w)
        return bv(int(tok), w)

    # ---- memory
    def const_off(self, st, off):
        off = full_simp(off)
        if not z3.is_bv_value(off):
            k = off.sexpr()
            if k in st.conc: return bv(st.conc[k], 64)
        return off

    def load(self, st, p, ty):
        n = type_size(ty)
        if p.obj == 0: raise Outcome('ub', 'load from null')
        if isinstance(p.obj, tuple):
            g = self.globs.get(p.obj[1])
            if g is None or g[1] is None: raise Outcome('unsupported', 'load from global ' + str(p.obj[1]))
            data = g[1]
            off = self.const_off(st, p.off)
            if not z3.is_bv_value(off):
                raise Concretize(off, [o for o in range(0, len(data) - n + 1, n)])
            o = off.as_long()
            if o + n > len(data): raise Outcome('ub', 'oob load from global')
            if ty == 'ptr': raise Outcome('unsupported', 'ptr load from global')
            return bv(int.from_bytes(data[o:o+n], 'little') & ((1 << type_bits(ty)) - 1), type_bits(ty))
        cells = st.mem.objs[p.obj]
        off = self.const_off(st, p.off)
        if z3.is_bv_value(off):
            o = off.as_long()
            if o + n > len(cells): raise Outcome('ub', 'oob load')
            return self.assemble(cells[o:o+n], ty)
        raise Concretize(off, [o for o in range(0, len(cells) - n + 1, n)])

    def assemble(self, cells, ty):
        if ty == 'ptr':
            c = cells[0]
            if isinstance(c, tuple) and c[0] == 'p': return c[1]
            if any(isinstance(x, tuple) for x in cells): raise Outcome('unsupported', 'ptr load of mixed bytes')
            # pointer-typed load of integer / uninitialised bytes (rustc loads the payload of a niche-encoded enum before it
            # tests the niche): an address inside the null object -- comparable, never dereferenceable
            return Ptr(0, self.assemble(cells, 'i64'))
        if any(c is None for c in cells):
            # LLVM semantics: loading uninitialised memory yields undef, which is UB only under !noundef (rustc
            # emits speculative loads of enum payloads that a later `select` discards). Model undef as a fresh
            # unconstrained value (0 in concrete mode): using it for control flow can then only create spurious
            # satisfiable paths, which the native replay would expose as a machinery error, never a false pass.
            if getattr(self, '_noundef', True): raise Outcome('ub', 'uninit load (!noundef)')
            self._undef_n = getattr(self, '_undef_n', 0) + 1
            w = type_bits(ty)
            return bv(0, w) if self.concrete else z3.BitVec('undef!%d' % self._undef_n, w)
        if any(isinstance(c, tuple) for c in cells):
            c0 = cells[0]
            if ty == 'i64' and len(cells) == 8 and all(isinstance(c, tuple) and c[0] == 'p' and c[1] is c0[1] and c[2] == k for k, c in enumerate(cells)) \
               and not isinstance(c0[1].obj, tuple):
                pp = c0[1]      # integer view of a stored pointer: same address model as ptrtoint
                return full_simp(bv(0x10000 * pp.obj, 64) + pp.off)
            raise Outcome('unsupported', 'int load of ptr bytes')
        w = type_bits(ty)
        c0 = cells[0]
        if isinstance(c0, list) and c0[2] == 0 and c0[1].size() == w and len(cells) * 8 >= w and all(isinstance(c, list) and c[1] is c0[1] and c[2] == k for k, c in enumerate(cells)):
            return c0[1]
        bs = [self.cell_byte(c) for c in cells]
        full = z3.Concat(*reversed(bs)) if len(bs) > 1 else bs[0]
        return simp(z3.Extract(w - 1, 0, full)) if w < 8 * len(cells) else simp(full)

    def cell_byte(self, c):
        if isinstance(c, list): return z3.Extract(8*c[2]+7, 8*c[2], c[1]) if c[1].size() > 8 else c[1]
        return c

    def split(self, v, ty):
        if ty == 'ptr': return [('p', v, k) for k in range(8)]
        n = type_size(ty); w = type_bits(ty)
        if w < 8 * n: v = simp(z3.ZeroExt(8 * n - w, v))
        if z3.is_bv_value(v): return [simp(z3.Extract(8*k+7, 8*k, v)) for k in range(n)]
        return [['v', v, k] for k in range(n)]

    def store(self, st, p, ty, v):
        if isinstance(p.obj, tuple) or p.obj == 0: raise Outcome('ub', 'store to global/null')
        cells = st.mem.objs[p.obj]
        bs = self.split(v, ty); n = len(bs)
        off = self.const_off(st, p.off)
        if z3.is_bv_value(off):
            o = off.as_long()
            if o + n > len(cells): raise Outcome('ub', 'oob store')
            cells[o:o+n] = bs; return
        raise Concretize(off, [o for o in range(0, len(cells) - n + 1, n)])

    # ---- main loop
    def start(self, fname, args):
        st = State()
        f = self.funcs[fname]
        env = {}
        for (ty, nm), a in zip(f.params, args): env[nm] = a
        st.frames.append(dict(fn=f, env=env, block=f.order[0], prev=None, idx=0, dest=None))
        return st

    def run_state(self, st, deadline=None):
        work = [(st, {})]
        while work:
            if deadline and time.time() > deadline:
                self.outcomes.append(([], 'explore-timeout', None, [])); return
            s, visits = work.pop()
            try:
                self.step_path(s, visits, work)
            except Outcome as o:
                self.stats['paths'] += 1
                self.outcomes.append((s.pc, o.kind, o.info, s.trace))

    def feasible(self, pc, st=None, extra=None):
        """is pc (+ extra) satisfiable?  `st.model` (a model of st.pc) is tried first: if it already satisfies
        `extra`, no solver call is needed (counterexample cache); on a solver `sat` the new model is remembered
        in self.last_model so that the caller can attach it to the child state."""
        if self.concrete:
            return True
        self.last_model = None
        if st is not None and extra is not None and st.model is not None:
            try:
                v = st.model.eval(extra, model_completion=True)
                if z3.is_true(v):
                    self.stats['model_hits'] = self.stats.get('model_hits', 0) + 1
                    self.last_model = st.model
                    return True
            except Exception:
                pass
        self.stats['feas_checks'] += 1
        s = z3.Solver(); s.set('timeout', self.feas_timeout_ms)
        s.add(*pc)
        if extra is not None: s.add(extra)
        r = s.check()
        if r == z3.unsat: self.stats['pruned'] += 1
        if r == z3.sat:
            try: self.last_model = s.model()
            except Exception: self.last_model = None
        return r != z3.unsat

    def step_path(self, st, visits, work):
        while True:
            fr = st.frames[-1]
            f = fr['fn']; ins = f.blocks[fr['block']][fr['idx']]
            fr['idx'] += 1
            self.stats['instrs'] += 1
            try:
                r = self.exec_ins(st, fr, ins)
            except Concretize as c:
                fr['idx'] -= 1
                live = []
                for k in c.cands:
                    if self.feasible(st.pc, st, c.term == bv(k, 64)): live.append((k, self.last_model))
                oobc = z3.And([c.term != bv(k, 64) for k in c.cands]) if c.cands else z3.BoolVal(True)
                if self.feasible(st.pc, st, oobc):
                    s3 = st.clone(); s3.pc.append(oobc)
                    self.stats['paths'] += 1; self.outcomes.append((s3.pc, c.other[0], c.other[1], s3.trace))
                if not live: raise Outcome('infeasible')
                for k, mdl in live[1:]:
                    s2 = st.clone(); s2.pc.append(c.term == bv(k, 64)); s2.conc[c.term.sexpr()] = k; s2.model = mdl
                    work.append((s2, dict(visits)))
                st.pc.append(c.term == bv(live[0][0], 64)); st.conc[c.term.sexpr()] = live[0][0]; st.model = live[0][1]
                continue
            except ForkBool as fb:
                fr['idx'] -= 1
                key = fb.cond.sexpr()
                t_ok = self.feasible(st.pc, st, fb.cond); t_m = self.last_model
                f_ok = self.feasible(st.pc, st, z3.Not(fb.cond)); f_m = self.last_model
                if not t_ok and not f_ok: raise Outcome('infeasible')
                if t_ok and f_ok:
                    self.stats['forks'] += 1
                    s2 = st.clone(); s2.pc.append(z3.Not(fb.cond)); s2.bools[key] = False; s2.model = f_m
                    work.append((s2, dict(visits)))
                    st.pc.append(fb.cond); st.bools[key] = True; st.model = t_m
                else:
                    st.bools[key] = t_ok   # implied by the path condition; no new conjunct needed
                continue
            if r is None: continue
            kind = r[0]
            if kind == 'goto':
                self.enter(st, fr, r[1], visits)
            elif kind == 'fork':
                alts = r[1]   # list of (cond, label)
                live = []
                for cond, lab in alts:
                    c = full_simp(cond)
                    if z3.is_false(c): continue
                    if not z3.is_true(c): c = cond
                    live.append((c, lab))
                if len(live) > 1:
                    self.stats['forks'] += 1
                    live2 = []
                    for c, l in live:
                        if self.feasible(st.pc, st, c): live2.append((c, l, self.last_model))
                    live = live2
                else:
                    live = [(c, l, st.model) for c, l in live]
                if not live: raise Outcome('infeasible')
                for c, lab, mdl in live[1:]:
                    s2 = st.clone(); v2 = dict(visits); s2.model = mdl
                    if not z3.is_true(c): s2.pc.append(c)
                    try:
                        self.enter(s2, s2.frames[-1], lab, v2)
                        work.append((s2, v2))
                    except Outcome as o:
                        self.stats['paths'] += 1; self.outcomes.append((s2.pc, o.kind, o.info, s2.trace))
                c, lab, mdl = live[0]
                if not z3.is_true(c): st.pc.append(c)
                st.model = mdl
                self.enter(st, fr, lab, visits)
            elif kind == 'ret':
                v = r[1]
                st.frames.pop()
                if not st.frames: raise Outcome('ret', v)
                caller = st.frames[-1]
                if fr['dest'] is not None: caller['env'][fr['dest']] = v

    def enter(self, st, fr, label, visits):
        key = (len(st.frames), fr['fn'].name, label)
        visits[key] = visits.get(key, 0) + 1
        if visits[key] > self.max_visits: raise Outcome('unwind-exceeded', label)
        fr['prev'] = fr['block']; fr['block'] = label; fr['idx'] = 0
        if len(st.frames) == 1: st.trace.append(label)
        blk = fr['fn'].blocks[label]
        newvals = {}
        k = 0
        while k < len(blk) and ' = phi ' in blk[k]:
            m = re.match(r'(%"[^"]+"|%[^ ]+) = phi (.*)', blk[k])
            dest = m.group(1); ty, rest = parse_type_prefix(m.group(2))
            found = False
            for inc in re.findall(r'\[\s*(.*?),\s*%("[^"]+"|[-\w.$]+)\s*\]', rest):
                if inc[1].strip('"') == fr['prev']:
                    newvals[dest] = self.val(st, ty, inc[0]); found = True; break
            if not found: raise ValueError('phi no incoming for ' + str(fr['prev']) + ' in ' + blk[k])
            k += 1
        fr['env'].update(newvals); fr['idx'] = k

    BINOPS = {'add': lambda a,b: a+b, 'sub': lambda a,b: a-b, 'mul': lambda a,b: a*b,
              'udiv': z3.UDiv, 'urem': z3.URem, 'sdiv': lambda a,b: a/b, 'srem': z3.SRem,
              'shl': lambda a,b: a<<b, 'lshr': z3.LShR, 'ashr': lambda a,b: a>>b,
              'and': lambda a,b: a&b, 'or': lambda a,b: a|b, 'xor': lambda a,b: a^b}
    ICMP = {'eq': lambda a,b: a==b, 'ne': lambda a,b: a!=b, 'ult': z3.ULT, 'ule': z3.ULE, 'ugt': z3.UGT, 'uge': z3.UGE,
            'slt': lambda a,b: a<b, 'sle': lambda a,b: a<=b, 'sgt': lambda a,b: a>b, 'sge': lambda a,b: a>=b}

    @staticmethod
    def from_fp(f):
        """bit pattern of an FP term; a NaN result gets x86's default NaN (z3 leaves the pattern of NaN unspecified)"""
        w = f.sort().ebits() + f.sort().sbits()
        nan = bv(0xFFC00000, 32) if w == 32 else bv(0xFFF8000000000000, 64)
        isnan = z3.simplify(z3.fpIsNaN(f))
        if z3.is_true(isnan): return nan
        if z3.is_false(isnan): return simp(z3.fpToIEEEBV(f))
        return z3.If(isnan, nan, z3.fpToIEEEBV(f))

    @staticmethod
    def to_fp(v, ty):
        return z3.fpBVToFP(v, z3.Float32() if ty == 'float' else z3.Float64())

    def exec_ins(self, st, fr, ins):
        env = fr['env']
        self._noundef = '!noundef' in ins
        ins = re.sub(r',\s*![\w.]+ !\d+', '', ins)       # metadata attachments
        ins = re.sub(r',\s*![\w.]+ !\{\}', '', ins)
        ins = re.sub(r',\s*align \d+', '', ins)
        dest = None
        m = re.match(r'(%"[^"]+"|%[^ ]+) = (.*)', ins)
        if m: dest, ins = m.group(1), m.group(2)
        ins = re.sub(r'^(tail |musttail |notail )', '', ins)
        op = ins.split()[0]
        rest = ins[len(op):].strip()
        if op in self.BINOPS:
            rest = re.sub(r'^((nuw|nsw|exact|disjoint)\s+)+', '', rest)
            ty, r2 = parse_type_prefix(rest)
            a, b = split_top(r2)
            va, vb = self.val(st, ty, a), self.val(st, ty, b)
            if ty == 'i1' and op in ('and', 'or', 'xor'):
                ba, bb = as_bool(va), as_bool(vb)
                c = {'and': z3.And, 'or': z3.Or, 'xor': z3.Xor}[op](ba, bb)
                if is_const(ba) and is_const(bb): c = z3.simplify(c)
                elif op == 'and' and (z3.is_false(ba) or z3.is_false(bb)): c = z3.BoolVal(False)
                elif op == 'and' and z3.is_true(ba): c = bb
                elif op == 'and' and z3.is_true(bb): c = ba
                elif op == 'or' and (z3.is_true(ba) or z3.is_true(bb)): c = z3.BoolVal(True)
                elif op == 'or' and z3.is_false(ba): c = bb
                elif op == 'or' and z3.is_false(bb): c = ba
                env[dest] = from_bool(c); return
            env[dest] = simp(self.BINOPS[op](va, vb)); return
        if op == 'icmp':
            rest = re.sub(r'^samesign\s+', '', rest)
            pred, r2 = rest.split(None, 1)
            ty, r3 = parse_type_prefix(r2)
            a, b = split_top(r3)
            va, vb = self.val(st, ty, a), self.val(st, ty, b)
            if isinstance(va, Ptr):
                same = (va.obj == vb.obj)
                if pred == 'eq': c = z3.And(z3.BoolVal(same), va.off == vb.off)
                elif pred == 'ne': c = z3.Or(z3.BoolVal(not same), va.off != vb.off)
                elif same: c = self.ICMP[pred](va.off, vb.off)
                elif isinstance(va.obj, tuple) or isinstance(vb.obj, tuple): raise Outcome('unsupported', 'ptr order compare with global')
                else:  # same address model as ptrtoint
                    c = self.ICMP[pred](bv(0x10000 * va.obj, 64) + va.off, bv(0x10000 * vb.obj, 64) + vb.off)
                c = full_simp(c) if same is False else c
            else:
                c = self.ICMP[pred](va, vb)
            env[dest] = simp(from_bool(simp(c))); return
        if op in ('zext', 'sext', 'trunc'):
            rest = re.sub(r'^((nneg|nuw|nsw)\s+)+', '', rest)
            ty, r2 = parse_type_prefix(rest)
            vtok, toty = r2.split(' to ')
            v = self.val(st, ty, vtok); w0, w1 = type_bits(ty), type_bits(toty)
            if op == 'zext': env[dest] = simp(z3.ZeroExt(w1 - w0, v))
            elif op == 'sext': env[dest] = simp(z3.SignExt(w1 - w0, v))
            else: env[dest] = simp(z3.Extract(w1 - 1, 0, v))
            return
        if op == 'ptrtoint':
            ty, r2 = parse_type_prefix(rest)
            vtok, toty = r2.split(' to ')
            p = self.val(st, ty, vtok)
            if isinstance(p.obj, tuple): raise Outcome('unsupported', 'ptrtoint of global')
            w1 = type_bits(toty)
            # address model: object k lives at the concrete address 0x10000*k (objects are < 64 KiB here), so distinct
            # objects are disjoint and maximally aligned; behaviour that depends on absolute addresses beyond
            # disjointness/alignment (which safe Rust cannot observe) is outside the model
            base = bv(0, 64) if p.obj == 0 else bv(0x10000 * p.obj, 64)
            v = full_simp(base + p.off)
            env[dest] = v if w1 == 64 else simp(z3.Extract(w1 - 1, 0, v)); return
        if op == 'bitcast':
            ty, r2 = parse_type_prefix(rest)
            vtok, toty = r2.split(' to ')
            if ty != 'ptr' and toty.strip() != 'ptr' and not ty.startswith(('<', '[', '{')) and type_bits(ty) == type_bits(toty):
                env[dest] = self.val(st, ty, vtok); return      # same-size scalar reinterpretation (floats are bit patterns here)
            raise Outcome('unsupported', op)
        if op in ('inttoptr', 'addrspacecast'):
            raise Outcome('unsupported', op)
        if op == 'fcmp':
            rest = re.sub(r'^((nnan|ninf|nsz|arcp|contract|afn|reassoc|fast)\s+)+', '', rest)
            pred, r2 = rest.split(None, 1)
            ty, r3 = parse_type_prefix(r2)
            a, b = split_top(r3)
            fa, fb = self.to_fp(self.val(st, ty, a), ty), self.to_fp(self.val(st, ty, b), ty)
            uno = z3.Or(z3.fpIsNaN(fa), z3.fpIsNaN(fb))
            base = {'eq': z3.fpEQ, 'gt': z3.fpGT, 'ge': z3.fpGEQ, 'lt': z3.fpLT, 'le': z3.fpLEQ}
            if pred == 'ord': c = z3.Not(uno)
            elif pred == 'uno': c = uno
            elif pred == 'true': c = z3.BoolVal(True)
            elif pred == 'false': c = z3.BoolVal(False)
            elif pred in ('one', 'une'):
                ne = z3.Not(z3.fpEQ(fa, fb))
                c = z3.And(z3.Not(uno), ne) if pred == 'one' else z3.Or(uno, ne)
            elif pred[0] == 'o' and pred[1:] in base: c = z3.And(z3.Not(uno), base[pred[1:]](fa, fb))
            elif pred[0] == 'u' and pred[1:] in base: c = z3.Or(uno, base[pred[1:]](fa, fb))
            else: raise Outcome('unsupported', 'fcmp ' + pred)
            cs = z3.simplify(c)
            env[dest] = from_bool(cs if (z3.is_true(cs) or z3.is_false(cs)) else c); return
        if op == 'uitofp':
            rest = re.sub(r'^(nneg\s+)', '', rest)
            ty, r2 = parse_type_prefix(rest)
            vtok, toty = r2.split(' to ')
            v = self.val(st, ty, vtok)
            srt = z3.Float32() if toty.strip() == 'float' else z3.Float64()
            env[dest] = simp(z3.fpToIEEEBV(z3.fpToFPUnsigned(z3.RNE(), v, srt))); return
        if op in ('fadd', 'fsub', 'fmul', 'fdiv'):
            rest = re.sub(r'^((nnan|ninf|nsz|arcp|contract|afn|reassoc|fast)\s+)+', '', rest)
            ty, r2 = parse_type_prefix(rest)
            a, b = split_top(r2)
            fa, fb = self.to_fp(self.val(st, ty, a), ty), self.to_fp(self.val(st, ty, b), ty)
            f = {'fadd': z3.fpAdd, 'fsub': z3.fpSub, 'fmul': z3.fpMul, 'fdiv': z3.fpDiv}[op](z3.RNE(), fa, fb)
            env[dest] = self.from_fp(f); return
        if op == 'select':
            parts = split_top(rest)
            c = self.val(st, 'i1', parts[0].split()[-1])
            ty, a = parse_type_prefix(parts[1]); _, b = parse_type_prefix(parts[2])
            va, vb = self.val(st, ty, a), self.val(st, ty, b)
            cb = as_bool(c)
            cs = full_simp(cb)
            if z3.is_true(cs): env[dest] = va; return
            if z3.is_false(cs): env[dest] = vb; return
            key = cb.sexpr()
            if key in st.bools: env[dest] = va if st.bools[key] else vb; return
            if isinstance(va, Ptr) or isinstance(va, list):
                if isinstance(va, Ptr) and va.obj == vb.obj:
                    env[dest] = Ptr(va.obj, z3.If(cb, va.off, vb.off)); return
                raise ForkBool(cb)
            if self.fork_select: raise ForkBool(cb)
            env[dest] = simp(z3.If(cb, va, vb)); return
        if op == 'freeze':
            ty, a = parse_type_prefix(rest); env[dest] = self.val(st, ty, a); return
        if op == 'phi':
            raise ValueError('phi not at block head')
        if op == 'alloca':
            parts = split_top(rest)
            ty = parts[0]
            n = type_size(ty)
            if len(parts) > 1 and not parts[1].startswith('align'):
                cty, ctok = parse_type_prefix(parts[1]); n *= int(ctok)
            env[dest] = Ptr(st.mem.alloc(n), bv(0, 64)); return
        if op == 'load':
            rest = re.sub(r'^(volatile|atomic)\s+', '', rest)
            parts = split_top(rest)
            ty = parts[0]; p = self.val(st, 'ptr', parts[1].split(None, 1)[1])
            env[dest] = self.load(st, p, ty); return
        if op == 'store':
            rest = re.sub(r'^(volatile|atomic)\s+', '', rest)
            parts = split_top(rest)
            ty, vtok = parse_type_prefix(parts[0])
            p = self.val(st, 'ptr', parts[1].split(None, 1)[1])
            self.store(st, p, ty, self.val(st, ty, vtok)); return
        if op == 'getelementptr':
            rest = re.sub(r'^((inbounds|nuw|nusw)\s+)+', '', rest)
            parts = split_top(rest)
            ety = parts[0]
            base = self.val(st, 'ptr', parts[1].split(None, 1)[1])
            off = base.off
            cur = ety
            for k, idx in enumerate(parts[2:]):
                ity, itok = parse_type_prefix(idx)
                iv = self.val(st, ity, itok)
                w = type_bits(ity)
                iv = simp(z3.SignExt(64 - w, iv)) if w < 64 else iv
                if k == 0: sz = type_size(cur)
                else:
                    rc = TYPEDEFS.get(cur.strip(), cur.strip())
                    mm = re.match(r'\[(\d+) x (.*)\]$', rc)
                    if mm:
                        cur = mm.group(2); sz = type_size(cur)
                    elif rc.startswith('{') or rc.startswith('<{'):
                        if not z3.is_bv_value(iv): raise Outcome('unsupported', 'symbolic struct index')
                        fo, cur = struct_field_offset(rc, iv.as_long())
                        off = simp(off + bv(fo, 64)); continue
                    else:
                        raise Outcome('unsupported', 'gep into ' + cur)
                off = simp(off + simp(iv * bv(sz, 64)))
            env[dest] = Ptr(base.obj, off); return
        if op == 'extractvalue':
            parts = split_top(rest)
            ty, a = parse_type_prefix(parts[0])
            env[dest] = self.val(st, ty, a)[int(parts[1])]; return
        if op == 'insertvalue':
            parts = split_top(rest)
            ty, a = parse_type_prefix(parts[0]); ety, e = parse_type_prefix(parts[1])
            agg = list(self.val(st, ty, a)); agg[int(parts[2])] = self.val(st, ety, e)
            env[dest] = agg; return
        if op == 'br':
            if rest.startswith('label'):
                return ('goto', rest.split('%', 1)[1].strip().strip('"'))
            parts = split_top(rest)
            c = self.val(st, 'i1', parts[0].split()[-1])
            t = parts[1].split('%', 1)[1].strip().strip('"'); e = parts[2].split('%', 1)[1].strip().strip('"')
            cb = as_bool(c)
            key = cb.sexpr()
            if key in st.bools:
                return ('goto', t if st.bools[key] else e)
            return ('fork', [(cb, t), (z3.Not(cb), e)])
        if op == 'switch':
            head, cases = rest.split('[', 1)
            parts = split_top(head)
            ty, vtok = parse_type_prefix(parts[0]); v = self.val(st, ty, vtok)
            dflt = parts[1].split('%', 1)[1].strip().strip('"')
            alts, neg = [], []
            for cm in re.finditer(r'(i\d+) (-?\d+), label %("[^"]+"|[-\w.$]+)', cases):
                cv = bv(int(cm.group(2)), type_bits(cm.group(1)))
                alts.append((v == cv, cm.group(3).strip('"'))); neg.append(v != cv)
            alts.append((z3.And(neg) if neg else z3.BoolVal(True), dflt))
            return ('fork', alts)
        if op == 'ret':
            if rest == 'void': return ('ret', None)
            ty, a = parse_type_prefix(rest); return ('ret', self.val(st, ty, a))
        if op == 'unreachable':
            raise Outcome('unreachable', fr['fn'].name[-60:] + ':' + fr['block'])
        if op == 'call':
            return self.exec_call(st, fr, dest, rest)
        raise Outcome('unsupported', ins[:80])

    def exec_call(self, st, fr, dest, rest):
        rest = re.sub(r'^(fastcc|ccc|coldcc)\s+', '', rest)
        rest = strip_attrs(rest)
        rty, r2 = parse_type_prefix(rest)
        m = re.match(r'@("[^"]+"|[-\w.$]+)\((.*)\)(\s*#\d+)?$', r2.strip())
        if not m: raise Outcome('unsupported', 'indirect call ' + rest[:60])
        name = m.group(1).strip('"'); argstr = m.group(2)
        env = fr['env']
        if name.startswith('llvm.'):
            if any(name.startswith(p) for p in ('llvm.lifetime', 'llvm.experimental.noalias', 'llvm.dbg', 'llvm.prefetch')): return
        args = []
        for a in split_top(argstr):
            a = strip_attrs(a)
            if a.startswith('metadata'): args.append(None); continue
            ty, tok = parse_type_prefix(a)
            args.append((ty, self.val(st, ty, tok)))
        if name.startswith('llvm.'):
            if name.startswith('llvm.assume'):
                return   # consequences LLVM derived; not exploited
            if name.startswith('llvm.expect'):
                env[dest] = args[0][1]; return
            mm = re.match(r'llvm\.(u|s)(add|sub|mul)\.with\.overflow\.i(\d+)', name)
            if mm:
                w = int(mm.group(3)); a, b = args[0][1], args[1][1]
                ext = z3.ZeroExt if mm.group(1) == 'u' else z3.SignExt
                wa, wb = ext(w, a), ext(w, b)
                full = {'add': wa + wb, 'sub': wa - wb, 'mul': wa * wb}[mm.group(2)]
                lo = {'add': a + b, 'sub': a - b, 'mul': a * b}[mm.group(2)]
                if mm.group(1) == 'u' and mm.group(2) == 'add': ov = z3.ULT(lo, a)
                elif mm.group(1) == 'u' and mm.group(2) == 'sub': ov = z3.ULT(a, b)
                else: ov = full != ext(w, lo)
                env[dest] = [simp(lo), simp(from_bool(simp(ov)))]; return
            mm = re.match(r'llvm\.(umin|umax|smin|smax)\.i\d+', name)
            if mm:
                a, b = args[0][1], args[1][1]
                c = {'umin': z3.ULT(a,b), 'umax': z3.UGT(a,b), 'smin': a<b, 'smax': a>b}[mm.group(1)]
                env[dest] = simp(z3.If(simp(c), a, b)); return
            mm = re.match(r'llvm\.(ctlz|cttz)\.i(\d+)', name)
            if mm:
                w = int(mm.group(2)); a = args[0][1]
                res = bv(w, w)
                rng = range(w) if mm.group(1) == 'ctlz' else reversed(range(w))
                for k in rng:
                    cnt = (w - 1 - k) if mm.group(1) == 'ctlz' else k
                    res = z3.If(z3.Extract(k, k, a) == 1, bv(cnt, w), res)
                env[dest] = full_simp(res) if z3.is_bv_value(a) else res; return
            mm = re.match(r'llvm\.ctpop\.i(\d+)', name)
            if mm:
                w = int(mm.group(1)); a = args[0][1]
                res = bv(0, w)
                for k in range(w): res = res + z3.ZeroExt(w - 1, z3.Extract(k, k, a))
                env[dest] = full_simp(res) if z3.is_bv_value(a) else res; return
            mm = re.match(r'llvm\.bswap\.i(\d+)', name)
            if mm:
                w = int(mm.group(1)); a = args[0][1]
                env[dest] = simp(z3.Concat(*[z3.Extract(8*k+7, 8*k, a) for k in range(w // 8)])); return
            mm = re.match(r'llvm\.abs\.i(\d+)', name)
            if mm:
                a = args[0][1]; env[dest] = simp(z3.If(a < 0, -a, a)); return
            mm = re.match(r'llvm\.(usub|uadd)\.sat\.i(\d+)', name)
            if mm:
                a, b = args[0][1], args[1][1]; w = int(mm.group(2))
                env[dest] = simp(z3.If(z3.ULT(a, b), bv(0, w), a - b)) if mm.group(1) == 'usub' else simp(z3.If(z3.ULT(a + b, a), bv(-1, w), a + b)); return
            mm = re.match(r'llvm\.(fshl|fshr)\.i(\d+)', name)
            if mm:
                w = int(mm.group(2)); a, b, c = args[0][1], args[1][1], args[2][1]
                sh = z3.URem(c, bv(w, w))
                cat = z3.Concat(a, b)
                if mm.group(1) == 'fshl':
                    env[dest] = simp(z3.Extract(2*w-1, w, cat << z3.ZeroExt(w, sh)))
                else:
                    env[dest] = simp(z3.Extract(w-1, 0, z3.LShR(cat, z3.ZeroExt(w, sh))))
                return
            if name.startswith('llvm.memcpy') or name.startswith('llvm.memmove'):
                d, s, n = args[0][1], args[1][1], self.const_off(st, args[2][1])
                if not z3.is_bv_value(n):
                    cap = 4096
                    if not isinstance(d.obj, tuple) and d.obj != 0: cap = len(st.mem.objs[d.obj])
                    raise Concretize(n, list(range(0, cap + 1)))
                n = n.as_long(); so = self.const_off(st, s.off); do = self.const_off(st, d.off)
                if n == 0: return
                if not z3.is_bv_value(so): raise Concretize(so, list(range(0, 4096)))
                if not z3.is_bv_value(do): raise Concretize(do, list(range(0, 4096)))
                if isinstance(d.obj, tuple) or d.obj == 0: raise Outcome('ub', 'memcpy to global/null')
                if isinstance(s.obj, tuple):
                    g = self.globs.get(s.obj[1])
                    if g is None or g[1] is None: raise Outcome('unsupported', 'memcpy from global')
                    src = [bv(x, 8) for x in g[1][so.as_long():so.as_long()+n]]
                elif s.obj == 0: raise Outcome('ub', 'memcpy from null')
                else:
                    src = st.mem.objs[s.obj][so.as_long():so.as_long()+n]
                if len(src) < n or do.as_long() + n > len(st.mem.objs[d.obj]): raise Outcome('ub', 'oob memcpy')
                st.mem.objs[d.obj][do.as_long():do.as_long()+n] = src; return
            if name.startswith('llvm.memset'):
                d, v, n = args[0][1], args[1][1], self.const_off(st, args[2][1])
                do = self.const_off(st, d.off)
                if isinstance(d.obj, tuple) or d.obj == 0: raise Outcome('ub', 'memset to global/null')
                if not z3.is_bv_value(do): raise Concretize(do, list(range(0, len(st.mem.objs[d.obj]) + 1)))
                if not z3.is_bv_value(n): raise Concretize(n, list(range(0, len(st.mem.objs[d.obj]) - do.as_long() + 1)))
                n = n.as_long()
                if do.as_long() + n > len(st.mem.objs[d.obj]): raise Outcome('ub', 'oob memset')
                st.mem.objs[d.obj][do.as_long():do.as_long()+n] = [v] * n; return
            m = re.match(r'llvm\.fabs\.f(32|64)$', name)
            if m:
                w = int(m.group(1)); env[dest] = simp(args[0][1] & bv((1 << (w - 1)) - 1, w)); return
            m = re.match(r'llvm\.is\.fpclass\.f(32|64)$', name)
            if m:
                w = int(m.group(1)); v = args[0][1]; mask = args[1][1]
                if not z3.is_bv_value(mask): raise Outcome('unsupported', name)
                mask = mask.as_long()
                x = self.to_fp(v, 'float' if w == 32 else 'double')
                mant = 23 if w == 32 else 52
                quiet = z3.Extract(mant - 1, mant - 1, v) == bv(1, 1)
                neg, pos = z3.fpIsNegative(x), z3.fpIsPositive(x)
                tests = [z3.And(z3.fpIsNaN(x), z3.Not(quiet)), z3.And(z3.fpIsNaN(x), quiet),
                         z3.And(z3.fpIsInf(x), neg), z3.And(z3.fpIsNormal(x), neg), z3.And(z3.fpIsSubnormal(x), neg), z3.And(z3.fpIsZero(x), neg),
                         z3.And(z3.fpIsZero(x), pos), z3.And(z3.fpIsSubnormal(x), pos), z3.And(z3.fpIsNormal(x), pos), z3.And(z3.fpIsInf(x), pos)]
                c = z3.Or([t for k, t in enumerate(tests) if mask >> k & 1] or [z3.BoolVal(False)])
                env[dest] = from_bool(c); return
            m = re.match(r'llvm\.fpto([us])i\.sat\.i(\d+)\.f(32|64)$', name)
            if m:
                signed, n, fw = m.group(1) == 's', int(m.group(2)), int(m.group(3))
                if signed: raise Outcome('unsupported', name)
                x = self.to_fp(args[0][1], 'float' if fw == 32 else 'double')
                srt = z3.Float32() if fw == 32 else z3.Float64()
                hi = z3.FPVal(float(2 ** n), srt)
                r = z3.If(z3.Or(z3.fpIsNaN(x), z3.fpLEQ(x, z3.FPVal(0.0, srt))), bv(0, n),
                          z3.If(z3.fpGEQ(x, hi), bv((1 << n) - 1, n), z3.fpToUBV(z3.RTZ(), x, z3.BitVecSort(n))))
                env[dest] = simp(r); return
            if name.startswith('llvm.trap') or name.startswith('llvm.ubsantrap'):
                raise Outcome('panic:trap', fr['fn'].name[-60:] + ':' + fr['block'])
            raise Outcome('unsupported', name)
        if name == 'verif_exit':   # harness bridge: leave the kernel with this verdict code (see harness/src/kernels/bridge.rs)
            st.frames[:] = []
            raise Outcome('ret', args[0][1])
        if name in self.funcs:
            f = self.funcs[name]
            self.called.add(name)
            nenv = {nm: a[1] for (ty, nm), a in zip(f.params, args)}
            st.frames.append(dict(fn=f, env=nenv, block=f.order[0], prev=None, idx=0, dest=dest))
            return
        # ---- Rust global allocator shims: a fresh object per allocation (never null: allocation failure is outside the
        # claim), freed objects become zero-sized so that any later access through a dangling pointer is reported as UB
        if '__rust_no_alloc_shim_is_unstable' in name: return
        if re.search(r'___rust_alloc(_zeroed)?$', name):
            n = self.const_off(st, args[0][1])
            if not z3.is_bv_value(n): raise Concretize(n, list(range(0, 513)), other=('unsupported', 'allocation larger than the modelled 512 bytes'))
            obj = st.mem.alloc(n.as_long(), bv(0, 8) if name.endswith('zeroed') else None)
            if dest: env[dest] = Ptr(obj, bv(0, 64))
            return
        if re.search(r'___rust_dealloc$', name):
            d = args[0][1]
            if isinstance(d.obj, tuple) or d.obj == 0: raise Outcome('ub', 'dealloc of global/null')
            st.mem.objs[d.obj] = []
            return
        if re.search(r'___rust_realloc$', name):
            d = args[0][1]; old = self.const_off(st, args[1][1]); n = self.const_off(st, args[3][1])
            if isinstance(d.obj, tuple) or d.obj == 0: raise Outcome('ub', 'realloc of global/null')
            if not z3.is_bv_value(n): raise Concretize(n, list(range(0, 513)), other=('unsupported', 'allocation larger than the modelled 512 bytes'))
            cells = st.mem.objs[d.obj]
            k = n.as_long()
            obj = st.mem.alloc(k, None)
            keep = min(k, len(cells))
            st.mem.objs[obj][:keep] = cells[:keep]
            st.mem.objs[d.obj] = []
            if dest: env[dest] = Ptr(obj, bv(0, 64))
            return
        low = name.lower()
        if 'panic' in low or 'unwrap_failed' in low or 'expect_failed' in low or 'slice_index' in low or 'slice_start_index' in low or 'slice_end_index' in low or 'handle_alloc_error' in low or 'assert_failed' in low or low in ('abort',):
            kind = 'panic'
            for k in PANIC_KINDS:
                if k in name: kind = 'panic:' + k; break
            raise Outcome(kind, fr['fn'].name[-60:] + ':' + fr['block'])
        raise Outcome('unsupported', 'call ' + name[-80:])

# ---------------------------------------------------------------- serialisation
def collect_divs(exprs):
    """all (bvudiv|bvurem a b) subterms, inner ones first"""
    seen, order = set(), []
    def walk(e):
        if e.get_id() in seen: return
        seen.add(e.get_id())
        for c in e.children(): walk(c)
        if z3.is_app(e) and e.decl().kind() in (z3.Z3_OP_BUDIV, z3.Z3_OP_BUREM, z3.Z3_OP_BUDIV_I, z3.Z3_OP_BUREM_I):
            order.append(e)
    for e in exprs: walk(e)
    return order

def _mul_args(t):
    if z3.is_app(t) and t.decl().kind() == z3.Z3_OP_BMUL and t.num_args() == 2:
        return t.arg(0), t.arg(1)
    return None

def collect_sums(exprs):
    """all terms of the form x*y or x*y + r' occurring in exprs: list of (term, x, y, r')"""
    seen, out = set(), []
    def walk(e):
        if e.get_id() in seen: return
        seen.add(e.get_id())
        for c in e.children(): walk(c)
        if not z3.is_app(e) or not z3.is_bv(e): return
        w = e.size()
        m = _mul_args(e)
        if m and not (z3.is_bv_value(m[0]) or z3.is_bv_value(m[1])): out.append((e, m[0], m[1], bv(0, w)))
        elif e.decl().kind() == z3.Z3_OP_BADD and e.num_args() == 2:
            for i in (0, 1):
                m = _mul_args(e.arg(i))
                if m and not (z3.is_bv_value(m[0]) or z3.is_bv_value(m[1])): out.append((e, m[0], m[1], e.arg(1 - i)))
    for e in exprs: walk(e)
    return out

def uniqueness_hint(a, b, q, r, sums=()):
    """Sound arithmetic lemma instances (Euclidean division is unique): for a term s = x*y + r' (or x*y)
    occurring in the query,  (a == s and y == b and r' <u b and the sum does not wrap)  implies
    a/b == x and a%b == r'  (and symmetrically for x == b).  Valid in every model, so adding it never
    changes satisfiability; it spares the solvers a non-linear argument."""
    w = a.size()
    hints = []
    ext = lambda x: z3.ZeroExt(w, x)
    for s, x, y, rp in sums:
        if s.size() != w: continue
        nowrap = ext(x) * ext(y) + ext(rp) == ext(s)
        is_a = z3.BoolVal(True) if s.eq(a) else a == s
        for h, d in ((x, y), (y, x)):
            same = z3.BoolVal(True) if d.eq(b) else d == b
            hints.append(z3.Implies(z3.And(is_a, same, z3.ULT(rp, b), nowrap), z3.And(q == h, r == rp)))
            if d.eq(b): break
    return z3.And(hints) if hints else None

def div_lemma_form(assertions, hints=True):
    """replace every udiv/urem by fresh q/r constrained by the division lemma (for bit-blasters)"""
    assertions = list(assertions)
    divs = collect_divs(assertions)
    if not divs: return assertions
    shifts = collect_lshr_consts(assertions)
    sums = collect_sums(assertions)
    products = collect_products(assertions)
    pairs = {}   # (a id, b id) -> (q, r)
    lemmas = []
    done = []    # substitution list applied progressively (inner first)
    for t in divs:
        t2 = z3.substitute(t, *done) if done else t
        a, b = t2.arg(0), t2.arg(1)
        key = (a.sexpr(), b.sexpr())
        if key not in pairs:
            w = a.size(); n = len(pairs)
            q = z3.BitVec(f'divq!{n}', w); r = z3.BitVec(f'divr!{n}', w)
            wa, wb, wq, wr = (z3.ZeroExt(w, x) for x in (a, b, q, r))
            lemmas.append(z3.Implies(b != 0, z3.And(wq * wb + wr == wa, z3.ULT(r, b))))
            lemmas.append(z3.Implies(b == 0, z3.And(q == bv(-1, w), r == a)))
            hint = uniqueness_hint(a, b, q, r, [] if done else sums) if hints else None
            if hint is not None: lemmas.append(hint)
            if not done and hints: lemmas += bound_hints(a, b, q, shifts) + monotonic_hints(a, b, q, products)
            pairs[key] = (q, r)
        q, r = pairs[key]
        isdiv = t.decl().kind() in (z3.Z3_OP_BUDIV, z3.Z3_OP_BUDIV_I)
        done.append((t, q if isdiv else r))
    out = [z3.substitute(a, *done) for a in assertions]
    return out + lemmas

def collect_lshr_consts(exprs):
    """map: sexpr of x -> set of constant k for every (bvlshr x k) occurring in exprs"""
    seen, out = set(), {}
    def walk(e):
        if e.get_id() in seen: return
        seen.add(e.get_id())
        for c in e.children(): walk(c)
        if z3.is_app(e) and e.decl().kind() == z3.Z3_OP_BLSHR and z3.is_bv_value(e.arg(1)):
            out.setdefault(e.arg(0).get_id(), (e.arg(0), set()))[1].add(e.arg(1).as_long())
    for e in exprs: walk(e)
    return out

def bound_hints(a, b, q, shifts):
    """Sound lemma instances: (a >> k) <u b  implies  a/b <u 2^k   (since a < ((a>>k)+1)*2^k <= b*2^k)."""
    hs = []
    ent = shifts.get(a.get_id())
    if ent:
        w = a.size()
        for k in sorted(ent[1]):
            if 0 < k < w:
                hs.append(z3.Implies(z3.ULT(z3.LShR(a, bv(k, w)), b), z3.ULT(q, bv(1 << k, w))))
    return hs

def collect_products(exprs):
    """all two-argument bvmul terms x*y with non-constant arguments: list of (term, x, y)"""
    seen, out = set(), []
    def walk(e):
        if e.get_id() in seen: return
        seen.add(e.get_id())
        for c in e.children(): walk(c)
        m = _mul_args(e) if z3.is_app(e) and z3.is_bv(e) else None
        if m and not (z3.is_bv_value(m[0]) or z3.is_bv_value(m[1])): out.append((e, m[0], m[1]))
    for e in exprs: walk(e)
    return out

def monotonic_hints(a, b, q, products):
    """Sound lemma instances (monotonicity of Euclidean division) for products b*x occurring in the query
    (b syntactically the divisor, b*x not wrapping):
        b*x <=u a  implies  x <=u a/b          a <u b*x  implies  a/b <u x
        a <u b*x1 + b*x2 (not wrapping)  implies  a/b <u x1 + x2 (not wrapping)"""
    w = a.size()
    ext = lambda t: z3.ZeroExt(w, t)
    mine = []
    for m, x, y in products:
        if m.size() != w: continue
        if y.eq(b): mine.append((m, x))
        elif x.eq(b): mine.append((m, y))
    hs = []
    for m, x in mine:
        nowrap = ext(b) * ext(x) == ext(m)
        hs.append(z3.Implies(z3.And(nowrap, b != 0, z3.ULE(m, a)), z3.ULE(x, q)))
        hs.append(z3.Implies(z3.And(nowrap, b != 0, z3.ULT(a, m)), z3.ULT(q, x)))
    for i in range(len(mine)):
        for j in range(i + 1, len(mine)):
            (m1, x1), (m2, x2) = mine[i], mine[j]
            nowrap = z3.And(ext(b) * ext(x1) == ext(m1), ext(b) * ext(x2) == ext(m2),
                            z3.ULE(m1, m1 + m2), z3.ULE(x1, x1 + x2))
            hs.append(z3.Implies(z3.And(nowrap, b != 0, z3.ULT(a, m1 + m2)), z3.ULT(q, x1 + x2)))
    return hs

def native_hints(assertions):
    """uniqueness and bound hints for the native (bvudiv/bvurem) encoding"""
    hints, seen = [], set()
    shifts = collect_lshr_consts(assertions)
    sums = collect_sums(assertions)
    products = collect_products(assertions)
    for t in collect_divs(assertions):
        a, b = t.arg(0), t.arg(1)
        key = (a.get_id(), b.get_id())
        if key in seen: continue
        seen.add(key)
        h = uniqueness_hint(a, b, z3.UDiv(a, b), z3.URem(a, b), sums)
        if h is not None: hints.append(h)
        hints += bound_hints(a, b, z3.UDiv(a, b), shifts) + monotonic_hints(a, b, z3.UDiv(a, b), products)
    return hints

def to_smt2(assertions, get_values=None):
    s = z3.Solver(); s.add(*(assertions if assertions else [z3.BoolVal(True)]))
    txt = s.to_smt2()
    txt = re.sub(r'\b(bvudiv|bvurem|bvsdiv|bvsrem|bvsmod)_i\b', r'\1', txt)   # z3-internal names
    txt = txt.replace('(set-info :status unknown)', '')
    if get_values:
        txt = '(set-option :produce-models true)\n' + txt + '(get-value (' + ' '.join(get_values) + '))\n'
    return '(set-logic ALL)\n' + txt
