//! Engine-K twins of engine-L kernels: the very same kernel function is called with `kani::any()`
//! arguments and its verdict code asserted (0 = held, 1 = outside precondition). CBMC decides the
//! small (u8/u16) instantiations; verdicts of the two engines are diffed by the driver.
use crate::kernels::{ans::*, range::*};
use crate::ksrc::Src;
use crate::{dispatch, harness, vcover};

macro_rules! kk_range_rt {
    ($name:ident, $kernel:ident, $S:ident, $Pr:ident, $K:expr, $NSUF:expr, $arrpr:ident, $arrw:ident) => {
        harness!($name, unwind = 12, |s| {
            let lower = s.$S();
            let range = s.$S();
            let cuts = s.$arrpr::<{ 2 * $K }>();
            let syms = s.arr_u8::<$K>();
            let suffix = s.$arrw::<{ $NSUF + 1 }>();
            let r = $kernel(lower, range, &cuts, &syms, &suffix);
            vcover!(r == 0);
            assert!(r <= 1);
        });
    };
}
kk_range_rt!(c02_rt_k1_u8_u16_p8, k_c02_rt_k1_u8_u16_p8, u16, u8, 1, 0, arr_u8, arr_u8);
kk_range_rt!(c02_rt_k1_u8_u16_p4, k_c02_rt_k1_u8_u16_p4, u16, u8, 1, 0, arr_u8, arr_u8);
kk_range_rt!(c02_rt_k2_u8_u16_p8, k_c02_rt_k2_u8_u16_p8, u16, u8, 2, 0, arr_u8, arr_u8);
kk_range_rt!(c11_suffix_k1_u8_u16_p8, k_c11_suffix_k1_u8_u16_p8, u16, u8, 1, 3, arr_u8, arr_u8);
kk_range_rt!(c11_suffix_k1_u8_u16_p4, k_c11_suffix_k1_u8_u16_p4, u16, u8, 1, 3, arr_u8, arr_u8);
kk_range_rt!(c02_rt_k2_u8_u16_p4, k_c02_rt_k2_u8_u16_p4, u16, u8, 2, 0, arr_u8, arr_u8);
kk_range_rt!(c02_rt_k3_u8_u16_p4, k_c02_rt_k3_u8_u16_p4, u16, u8, 3, 0, arr_u8, arr_u8);
kk_range_rt!(c11_suffix_k2_u8_u16_p4, k_c11_suffix_k2_u8_u16_p4, u16, u8, 2, 4, arr_u8, arr_u8);

// CBMC twin of the observational C09 kernel (3 encodes + 2 decodes around a failing call)
harness!(c09_ans_u8_u16_p4, unwind = 8, |s| {
    let r = k_c09_ans_u8_u16_p4(s.u16(), s.u8(), s.u32(), s.u8(), s.u8(), s.u8(), s.u8(), s.u32(), s.u8());
    vcover!(r == 0);
    assert!(r <= 1 || r == 20); // 20 = raw parts differ although every observation agrees: not a violation
});

dispatch!(c09_ans_u8_u16_p4, c02_rt_k1_u8_u16_p8, c02_rt_k1_u8_u16_p4, c02_rt_k2_u8_u16_p8, c11_suffix_k1_u8_u16_p8, c11_suffix_k1_u8_u16_p4, c02_rt_k2_u8_u16_p4, c02_rt_k3_u8_u16_p4, c11_suffix_k2_u8_u16_p4);
