//! Entropy models (C03, C05, C09, C10, C18, C19, C20): every constructor result is checked against the
//! `Valid` predicate of DESIGN.md with a SYMBOLIC quantile; representations of one model are compared
//! pairwise on a symbolic symbol and a symbolic quantile. `Probability = u8`, n <= 3 symbols.
use crate::common::*;
use crate::ksrc::Src;
use crate::{dispatch, harness, vcover};
use constriction::stream::model::*;
use constriction::{BitArray, NonZeroBitArray};
use probability::distribution::{Distribution, Inverse};

/// `Valid(m)` for a contiguous model over `0..n` with u8 probabilities at precision P (symbolic quantile `q`).
fn check_valid<M, const P: usize>(m: &M, n: usize, q: u8, big: usize)
where
    M: EncoderModel<P, Symbol = usize, Probability = u8> + DecoderModel<P, Symbol = usize, Probability = u8>,
{
    let total: u16 = 1 << P;
    assert!(n >= 2); // a single symbol carrying the whole mass is never a valid model
    let mut acc: u16 = 0;
    let mut i = 0;
    while i < n {
        let (c, p) = match m.left_cumulative_and_probability(i) {
            Some(x) => x,
            None => {
                assert!(false);
                return;
            }
        };
        assert!(c as u16 == acc); // consecutive, non-overlapping
        assert!(p.get() != 0 && (p.get() as u16) < total); // non-empty, no symbol has probability one
        acc += p.get() as u16;
        i += 1;
    }
    assert!(acc == total); // tiles [0, 2^P) exactly
    // outside the support: probability zero (also for values far outside)
    assert!(m.left_cumulative_and_probability(n).is_none());
    assert!(big < n || m.left_cumulative_and_probability(big).is_none());
    // exact invertibility on a symbolic quantile
    if (q as u16) < total {
        let (s, c, p) = m.quantile_function(q);
        assert!(s < n);
        assert!(c <= q && (q as u16) < c as u16 + p.get() as u16);
        let (c2, p2) = m.left_cumulative_and_probability(s).unwrap();
        assert!(c2 == c && p2 == p);
    }
}

// ------------------------------------------------------------------ fixed-point tables (C03 / C19 / C20)
/// tiling part of `Valid` (no quantile lookup)
fn check_tiling<M, const P: usize>(m: &M, n: usize, big: usize)
where
    M: EncoderModel<P, Symbol = usize, Probability = u8>,
{
    let total: u16 = 1 << P;
    assert!(n >= 2);
    let mut acc: u16 = 0;
    let mut i = 0;
    while i < n {
        let (c, p) = match m.left_cumulative_and_probability(i) {
            Some(x) => x,
            None => {
                assert!(false);
                return;
            }
        };
        assert!(c as u16 == acc);
        assert!(p.get() != 0 && (p.get() as u16) < total);
        acc += p.get() as u16;
        i += 1;
    }
    assert!(acc == total);
    assert!(m.left_cumulative_and_probability(n).is_none());
    assert!(big < n || m.left_cumulative_and_probability(big).is_none());
}

macro_rules! fixed_contiguous {
    ($name:ident, $qname:ident, $P:expr) => {
        harness!($name, unwind = 7, |s| {
            let probs: [u8; 3] = s.arr_u8::<3>();
            let n = s.usize();
            s.assume(n <= 3);
            let infer = s.bool();
            let big = s.usize();
            let r = ContiguousCategoricalEntropyModel::<u8, Vec<u8>, $P>::from_nonzero_fixed_point_probabilities(&probs[..n], infer);
            if let Ok(m) = r {
                let k = m.support_size();
                assert!(k == n + infer as usize);
                check_tiling::<_, $P>(&m, k, big);
                vcover!(infer);
                vcover!(!infer && n == 3);
                core::mem::forget(m);
            }
        });
        harness!($qname, unwind = 7, |s| {
            let probs: [u8; 3] = s.arr_u8::<3>();
            let n = s.usize();
            s.assume(n <= 3);
            let infer = s.bool();
            let q = s.u8();
            let total: u16 = 1 << $P;
            s.assume((q as u16) < total);
            let r = ContiguousCategoricalEntropyModel::<u8, Vec<u8>, $P>::from_nonzero_fixed_point_probabilities(&probs[..n], infer);
            if let Ok(m) = r {
                let k = m.support_size();
                let (sy, c, p) = m.quantile_function(q);
                assert!(sy < k);
                assert!(c <= q && (q as u16) < c as u16 + p.get() as u16);
                let (c2, p2) = m.left_cumulative_and_probability(sy).unwrap();
                assert!(c2 == c && p2 == p);
                vcover!(sy == 2);
                core::mem::forget(m);
            }
        });
    };
}
fixed_contiguous!(fixed_contiguous_p8, fixed_contiguous_quantile_p8, 8);
fixed_contiguous!(fixed_contiguous_p4, fixed_contiguous_quantile_p4, 4);

// completeness: "inferring the last probability works at every precision"
macro_rules! fixed_infer_complete {
    ($name:ident, $P:expr) => {
        harness!($name, unwind = 7, |s| {
            let probs: [u8; 2] = s.arr_u8::<2>();
            let n = s.usize();
            s.assume(n >= 1 && n <= 2);
            let total: u16 = 1 << $P;
            let sum: u16 = probs[0] as u16 + if n == 2 { probs[1] as u16 } else { 0 };
            s.assume(probs[0] != 0 && (n == 1 || probs[1] != 0) && sum < total);
            let r = ContiguousCategoricalEntropyModel::<u8, Vec<u8>, $P>::from_nonzero_fixed_point_probabilities(&probs[..n], true);
            assert!(r.is_ok());
            if let Ok(m) = r {
                let (c, p) = m.left_cumulative_and_probability(n).unwrap();
                assert!(c as u16 == sum && p.get() as u16 == total - sum);
                core::mem::forget(m);
            }
        });
    };
}
fixed_infer_complete!(fixed_infer_complete_p8, 8);
fixed_infer_complete!(fixed_infer_complete_p4, 4);

// non-contiguous decoder model + lookup models from fixed-point tables
macro_rules! fixed_noncontig {
    ($name:ident, $P:expr) => {
        harness!($name, unwind = 7, |s| {
            let probs: [u8; 3] = s.arr_u8::<3>();
            let syms: [u8; 3] = s.arr_u8::<3>();
            let n = s.usize();
            let ns = s.usize();
            s.assume(n <= 3 && ns <= 3);
            let infer = s.bool();
            let q = s.u8();
            let total: u16 = 1 << $P;
            let r = NonContiguousCategoricalDecoderModel::<u8, u8, Vec<(u8, u8)>, $P>::from_symbols_and_nonzero_fixed_point_probabilities(
                syms[..ns].iter().cloned(),
                &probs[..n],
                infer,
            );
            if let Ok(m) = r {
                // mismatched symbol/probability counts are refused
                assert!(ns == n + infer as usize);
                assert!(ns >= 2);
                assert!(m.support_size() == ns);
                // table view: consecutive non-empty intervals tiling [0, 2^P)
                let mut acc: u16 = 0;
                let mut k = 0usize;
                for (sym, c, p) in m.symbol_table() {
                    assert!(k < ns && sym == syms[k]);
                    assert!(c as u16 == acc && p.get() != 0 && (p.get() as u16) < total);
                    acc += p.get() as u16;
                    k += 1;
                }
                assert!(k == ns && acc == total);
                if (q as u16) < total {
                    let (sym, c, p) = m.quantile_function(q);
                    assert!(c <= q && (q as u16) < c as u16 + p.get() as u16);
                    assert!(sym == syms[0] || sym == syms[1] || (ns == 3 && sym == syms[2]));
                }
                vcover!(infer);
                vcover!(!infer && n == 3);
                core::mem::forget(m);
            }
        });
    };
}
fixed_noncontig!(fixed_noncontig_p8, 8);
fixed_noncontig!(fixed_noncontig_p4, 4);

macro_rules! fixed_lookup {
    ($name:ident, $P:expr) => {
        harness!($name, unwind = 20, |s| {
            let probs: [u8; 3] = s.arr_u8::<3>();
            let n = s.usize();
            s.assume(n >= 1 && n <= 2);
            let infer = s.bool();
            let q = s.u8();
            let total: u16 = 1 << $P;
            let r = ContiguousLookupDecoderModel::<u8, Vec<u8>, Box<[u8]>, $P>::from_nonzero_fixed_point_probabilities(&probs[..n], infer);
            if let Ok(m) = r {
                let k = n + infer as usize;
                assert!(k >= 2);
                // C10: any quantile below 2^P is looked up in bounds and lands in the right interval
                if (q as u16) < total {
                    let (sym, c, p) = m.quantile_function(q);
                    assert!(sym < k);
                    assert!(c <= q && (q as u16) < c as u16 + p.get() as u16);
                    // C05: same answer as the searched decoder built from the same table
                    let cm = m.as_contiguous_categorical();
                    let (s2, c2, p2) = cm.quantile_function(q);
                    assert!(s2 == sym && c2 == c && p2 == p);
                    let (c3, p3) = cm.left_cumulative_and_probability(sym).unwrap();
                    assert!(c3 == c && p3 == p);
                }
                core::mem::forget(m);
            }
        });
    };
}
fixed_lookup!(fixed_lookup_p3, 3);
fixed_lookup!(fixed_lookup_p8, 8);

// ------------------------------------------------------------------ uniform (C03, C09 narrowing, C19)
macro_rules! uniform {
    ($name:ident, $P:expr) => {
        harness!($name, unwind = 4, |s| {
            let range = s.usize();
            let total: usize = 1 << $P;
            s.assume(range >= 2 && range <= total);
            let m = UniformModel::<u8, $P>::new(range);
            // symbolic symbol over the FULL usize range (narrowing must not alias an in-support symbol)
            let sym = s.usize();
            let r = m.left_cumulative_and_probability(sym);
            assert!(r.is_some() == (sym < range));
            let per = (total / range) as u16;
            if let Some((c, p)) = r {
                assert!(c as u16 == sym as u16 * per);
                if sym + 1 < range {
                    assert!(p.get() as u16 == per);
                } else {
                    assert!(p.get() as u16 == total as u16 - (range as u16 - 1) * per);
                }
                assert!((p.get() as usize) < total);
            }
            let q = s.u8();
            if (q as usize) < total {
                let (s2, c, p) = m.quantile_function(q);
                assert!(s2 < range);
                assert!(c <= q && (q as u16) < c as u16 + p.get() as u16);
                let (c2, p2) = m.left_cumulative_and_probability(s2).unwrap();
                assert!(c2 == c && p2 == p);
            }
            vcover!(sym >= 65536 + 1 && sym % 256 < range);
            vcover!(range == total);
        });
    };
}
uniform!(uniform_u8_p8, 8);
uniform!(uniform_u8_p5, 5);

// invalid ranges are refused by a panic (never a broken model)
harness!(uniform_rejects, unwind = 4, |s| {
    let range = s.usize();
    s.assume(range < 2 || range > 32);
    let m = UniformModel::<u8, 5>::new(range); // must panic (assert!) for every such range
    assert!(false); // reaching here means an invalid range was accepted
});

// ------------------------------------------------------------------ C05: conversions agree bit for bit
// each conversion in its own (small) harness: two symbols, P = 3
macro_rules! conversion {
    ($name:ident, |$m:ident, $sym:ident, $q:ident, $want_e:ident, $want_d:ident| $body:block) => {
        conversion!($name, 3, |$m, $sym, $q, $want_e, $want_d| $body);
    };
    ($name:ident, $P:expr, |$m:ident, $sym:ident, $q:ident, $want_e:ident, $want_d:ident| $body:block) => {
        harness!($name, unwind = 12, |s| {
            const T: u8 = 1 << $P;
            let p0 = s.u8();
            s.assume(p0 >= 1 && p0 <= T - 1);
            let probs = [p0, T - p0];
            let $sym = s.usize();
            let $q = s.u8();
            s.assume($q < T && $sym < 2);
            let $m = ContiguousCategoricalEntropyModel::<u8, Vec<u8>, $P>::from_nonzero_fixed_point_probabilities(&probs[..], false).ok().unwrap();
            let $want_e = $m.left_cumulative_and_probability($sym);
            let $want_d = $m.quantile_function($q);
            assert!($want_e.is_some());
            $body
            core::mem::forget($m);
        });
    };
}
conversion!(conv_view, |m, sym, q, want_e, want_d| {
    let v = m.as_view();
    assert!(v.left_cumulative_and_probability(sym) == want_e);
    assert!(v.quantile_function(q) == want_d);
});
conversion!(conv_symbol_table, |m, sym, q, want_e, want_d| {
    let mut k = 0usize;
    for (sy, c, p) in m.symbol_table() {
        assert!(sy == k);
        if sy == sym {
            assert!(Some((c, p)) == want_e);
        }
        k += 1;
    }
    assert!(k == 2);
    // float views equal p / 2^P exactly (C18)
    let (_, p) = want_e.unwrap();
    let f: f64 = m.floating_point_probability(sym);
    assert!(f == p.get() as f64 / 8.0);
});
conversion!(conv_lookup, |m, sym, q, want_e, want_d| {
    let l = m.to_lookup_decoder_model();
    assert!(l.quantile_function(q) == want_d);
    core::mem::forget(l);
});
conversion!(conv_generic_decoder, |m, sym, q, want_e, want_d| {
    let g = m.to_generic_decoder_model();
    assert!(g.quantile_function(q) == want_d);
    core::mem::forget(g);
});
conversion!(conv_generic_lookup, |m, sym, q, want_e, want_d| {
    let gl = m.to_generic_lookup_decoder_model();
    assert!(gl.quantile_function(q) == want_d);
    core::mem::forget(gl);
});

// ------------------------------------------------------------------ float tables (C03 / C05 / C19)
// documented precondition: finite, non-negative entries with a positive (normal) sum
harness!(fast_f32_n3_p4_norm1, unwind = 7, |s| {
    let probs: [f32; 3] = [s.f32(), s.f32(), s.f32()];
    s.assume(probs[0] >= 0.0 && probs[1] >= 0.0 && probs[2] >= 0.0);
    s.assume((probs[0] + probs[1]) + probs[2] == 1.0);
    let q = s.u8();
    let big = s.usize();
    let r = ContiguousCategoricalEntropyModel::<u8, Vec<u8>, 4>::from_floating_point_probabilities_fast(&probs, Some(1.0));
    assert!(r.is_ok());
    if let Ok(m) = r {
        check_valid::<_, 4>(&m, 3, q, big);
        core::mem::forget(m);
    }
});

harness!(fast_f32_n2_p3_nonorm, unwind = 6, |s| {
    let probs: [f32; 2] = [s.f32(), s.f32()];
    s.assume(probs[0] >= 0.0 && probs[1] >= 0.0 && probs[0].is_finite() && probs[1].is_finite());
    let q = s.u8();
    let big = s.usize();
    let r = ContiguousCategoricalEntropyModel::<u8, Vec<u8>, 3>::from_floating_point_probabilities_fast(&probs, None);
    if let Ok(m) = r {
        check_valid::<_, 3>(&m, 2, q, big);
        core::mem::forget(m);
    }
    vcover!(probs[0] == 0.0 && probs[1] > 0.0);
});

// C19: any input whatsoever outside the recorded known-finding region (negative entries; a caller-supplied
// normalization that is not the sum): error or valid model
harness!(fast_f32_n2_p3_anyinput, unwind = 6, |s| {
    let probs: [f32; 2] = [s.f32(), s.f32()];
    s.assume(!(probs[0] < 0.0) && !(probs[1] < 0.0)); // region of known finding C19/negative-weights excluded
    let q = s.u8();
    let big = s.usize();
    let r = ContiguousCategoricalEntropyModel::<u8, Vec<u8>, 3>::from_floating_point_probabilities_fast(&probs, None);
    if let Ok(m) = r {
        check_valid::<_, 3>(&m, 2, q, big);
        core::mem::forget(m);
    }
    vcover!(probs[0].is_nan());
    vcover!(probs[1].is_infinite());
});

// witness carrier for the recorded known finding (negative entries are accepted): same body, no restriction
harness!(fast_f32_n2_p3_unrestricted, unwind = 6, |s| {
    let probs: [f32; 2] = [s.f32(), s.f32()];
    let q = s.u8();
    let big = s.usize();
    let r = ContiguousCategoricalEntropyModel::<u8, Vec<u8>, 3>::from_floating_point_probabilities_fast(&probs, None);
    if let Ok(m) = r {
        check_valid::<_, 3>(&m, 2, q, big);
        core::mem::forget(m);
    }
});

// lazy versus eager construction by the same-named constructor (C05)
harness!(lazy_vs_eager_f32_n3_p4, unwind = 7, |s| {
    let probs: [f32; 3] = [s.f32(), s.f32(), s.f32()];
    s.assume(probs[0] >= 0.0 && probs[1] >= 0.0 && probs[2] >= 0.0);
    s.assume((probs[0] + probs[1]) + probs[2] == 1.0);
    let eager = ContiguousCategoricalEntropyModel::<u8, Vec<u8>, 4>::from_floating_point_probabilities_fast(&probs, Some(1.0)).ok().unwrap();
    let lazy = LazyContiguousCategoricalEntropyModel::<u8, f32, _, 4>::from_floating_point_probabilities_fast(&probs[..], Some(1.0)).ok().unwrap();
    let sym = s.usize();
    s.assume(sym < 4);
    assert!(eager.left_cumulative_and_probability(sym) == lazy.left_cumulative_and_probability(sym));
    let q = s.u8();
    s.assume(q < 16);
    assert!(eager.quantile_function(q) == lazy.quantile_function(q));
    core::mem::forget(eager);
});

// the lazy model itself satisfies Valid (C03), incl. tables with leading / interior zero entries
harness!(lazy_f32_n3_p4_valid, unwind = 7, |s| {
    let probs: [f32; 3] = [s.f32(), s.f32(), s.f32()];
    s.assume(probs[0] >= 0.0 && probs[1] >= 0.0 && probs[2] >= 0.0);
    s.assume((probs[0] + probs[1]) + probs[2] == 1.0);
    let lazy = LazyContiguousCategoricalEntropyModel::<u8, f32, _, 4>::from_floating_point_probabilities_fast(&probs[..], Some(1.0)).ok().unwrap();
    let q = s.u8();
    let big = s.usize();
    check_valid::<_, 4>(&lazy, 3, q, big);
    vcover!(probs[0] == 0.0 && probs[1] == 0.0);
    vcover!(probs[0] == 0.0 && q == 0);
});

// ------------------------------------------------------------------ leaky quantiser over a stub distribution
/// CDF given by a symbolic table at the half-integers, constrained only by the documented contract
/// (monotone, within [0,1]); inverse returns an arbitrary finite value (the "wrong hint").
#[derive(Clone, Copy)]
pub struct TableDist<const N: usize> {
    pub v: [f64; N],
    pub inv: f64,
}
impl<const N: usize> Distribution for TableDist<N> {
    type Value = f64;
    fn distribution(&self, x: f64) -> f64 {
        // support lo..=lo+N : evaluated at lo+0.5, lo+1.5, ...; table index = floor(x - lo)
        let mut i = 0usize;
        let mut r = 0.0;
        if x < 0.0 {
            return 0.0;
        }
        while i < N {
            if x >= i as f64 {
                r = self.v[i];
            }
            i += 1;
        }
        r
    }
}
impl<const N: usize> Inverse for TableDist<N> {
    fn inverse(&self, _p: f64) -> f64 {
        self.inv
    }
}

// support 0..=2 (3 symbols), P = 4, fully symbolic f64 CDF values
harness!(quantizer_u8_p4_sup3, unwind = 12, |s| {
    let v: [f64; 2] = [s.f64(), s.f64()];
    s.assume(v[0] >= 0.0 && v[0] <= v[1] && v[1] <= 1.0);
    let inv = s.f64();
    s.assume(inv.is_finite());
    let quantizer = LeakyQuantizer::<f64, u8, u8, 4>::new(0..=2);
    let m = quantizer.quantize(TableDist::<2> { v, inv });
    let mut acc: u16 = 0;
    let mut cs = [0u8; 3];
    let mut ps = [0u8; 3];
    let mut sy: u8 = 0;
    while sy <= 2 {
        let (c, p) = m.left_cumulative_and_probability(sy).unwrap();
        assert!(c as u16 == acc && p.get() != 0 && p.get() < 16);
        cs[sy as usize] = c;
        ps[sy as usize] = p.get();
        acc += p.get() as u16;
        sy += 1;
    }
    assert!(acc == 16);
    // symbols outside the support (also far outside) have probability zero
    let out = s.u8();
    s.assume(out > 2);
    assert!(m.left_cumulative_and_probability(out).is_none());
    // exact invertibility with an arbitrary inverse hint
    let q = s.u8();
    s.assume(q < 16);
    let (s2, c, p) = m.quantile_function(q);
    assert!(s2 <= 2);
    assert!(c <= q && (q as u16) < c as u16 + p.get() as u16);
    assert!(c == cs[s2 as usize] && p.get() == ps[s2 as usize]);
    // C05: the iterated symbol table equals the direct queries
    let mut k = 0usize;
    for (sym, c, p) in m.symbol_table() {
        assert!(k < 3 && sym as usize == k);
        assert!(c == cs[k] && p.get() == ps[k]);
        k += 1;
    }
    assert!(k == 3);
});

// C19: LeakyQuantizer::new accepts only supports with at least two symbols (all u8 / i8 pairs)
harness!(quantizer_new_rejects_u8, unwind = 4, |s| {
    let a = s.u8();
    let b = s.u8();
    s.assume(a >= b); // empty or single-element support
    let _q = LeakyQuantizer::<f64, u8, u32, 24>::new(a..=b); // must panic for every such support
    assert!(false);
});
harness!(quantizer_new_rejects_i8, unwind = 4, |s| {
    let a = s.u8() as i8;
    let b = s.u8() as i8;
    s.assume(a >= b);
    let _q = LeakyQuantizer::<f64, i8, u32, 24>::new(a..=b);
    assert!(false);
});
// ... and a support wider than 2^PRECISION symbols is refused too
harness!(quantizer_new_rejects_too_wide, unwind = 4, |s| {
    let a = s.u8();
    let b = s.u8();
    s.assume(b > a && (b - a) as u16 + 1 > 16);
    let _q = LeakyQuantizer::<f64, u8, u8, 4>::new(a..=b);
    assert!(false);
});

// C03 at a precision close to the f32 mantissa: valid f32 tables must give valid models at u32 / P = 24
harness!(fast_f32_n3_p24_u32, unwind = 7, |s| {
    let probs: [f32; 3] = [s.f32(), s.f32(), s.f32()];
    s.assume(probs[0] >= 0.0 && probs[1] >= 0.0 && probs[2] >= 0.0);
    s.assume(probs[0].is_finite() && probs[1].is_finite() && probs[2].is_finite());
    let r = ContiguousCategoricalEntropyModel::<u32, Vec<u32>, 24>::from_floating_point_probabilities_fast(&probs, None);
    if let Ok(m) = r {
        let total: u64 = 1 << 24;
        let mut acc: u64 = 0;
        let mut i = 0;
        while i < 3 {
            let (c, p) = m.left_cumulative_and_probability(i).unwrap();
            assert!(c as u64 == acc);
            assert!(p.get() != 0 && (p.get() as u64) < total);
            acc += p.get() as u64;
            i += 1;
        }
        assert!(acc == total);
        core::mem::forget(m);
    }
    vcover!(probs[1] == 0.0 && probs[0] > 0.0);
});

// C09: symbols far outside the support, whose value aliases an in-support symbol after narrowing to the
// (narrower) probability type, must be refused by the quantised model
harness!(quantizer_wide_symbol_none, unwind = 6, |s| {
    let v: [f64; 2] = [s.f64(), s.f64()];
    s.assume(v[0] >= 0.0 && v[0] <= v[1] && v[1] <= 1.0);
    let quantizer = LeakyQuantizer::<f64, i16, u8, 4>::new(-1..=1);
    let m = quantizer.quantize(TableDistI16 { v });
    let sym = s.u16() as i16;
    let r = m.left_cumulative_and_probability(sym);
    assert!(r.is_some() == (sym >= -1 && sym <= 1));
    vcover!(sym == 255);
    vcover!(sym == -257);
    vcover!(sym == 0);
});

#[derive(Clone, Copy)]
pub struct TableDistI16 {
    pub v: [f64; 2],
}
impl Distribution for TableDistI16 {
    type Value = f64;
    fn distribution(&self, x: f64) -> f64 {
        if x < -1.0 {
            0.0
        } else if x < 0.0 {
            self.v[0]
        } else if x < 1.0 {
            self.v[1]
        } else {
            1.0
        }
    }
}

dispatch!(
    quantizer_new_rejects_u8, quantizer_new_rejects_i8, quantizer_new_rejects_too_wide, fast_f32_n3_p24_u32,
    fast_f32_n2_p3_unrestricted,
    quantizer_wide_symbol_none,
    lazy_f32_n3_p4_valid,
    fixed_contiguous_p8, fixed_contiguous_p4, fixed_contiguous_quantile_p8, fixed_contiguous_quantile_p4, fixed_infer_complete_p8, fixed_infer_complete_p4,
    fixed_noncontig_p8, fixed_noncontig_p4, fixed_lookup_p3, fixed_lookup_p8,
    uniform_u8_p8, uniform_u8_p5, uniform_rejects, conv_view, conv_symbol_table, conv_lookup, conv_generic_decoder, conv_generic_lookup,
    fast_f32_n3_p4_norm1, fast_f32_n2_p3_nonorm, fast_f32_n2_p3_anyinput, lazy_vs_eager_f32_n3_p4,
    quantizer_u8_p4_sup3
);
