//! ANS coder over the library's real `Vec` back end: constructors, export/import, guards, size
//! queries, raw-binary accessors (C01, C04, C08, C18). No division is involved, so CBMC decides
//! these at every width.
use crate::common::*;
use crate::ksrc::Src;
use crate::{dispatch, harness, vcover};
use constriction::backends::*;
use constriction::stream::{stack::AnsCoder, Code, Decode, Encode};
use constriction::{Pos, Seek, Stack};

macro_rules! ans_harnesses {
    ($W:ty, $S:ty, $w:ident, $sget:ident, $maxlen:expr,
     $ctor:ident, $export:ident, $view:ident, $reimport:ident, $binary:ident, $guards:ident) => {
        // from_compressed / from_binary on arbitrary words: invariant, failure condition, identity.
        harness!($ctor, unwind = 8, |s| {
            const WB: u32 = <$W>::BITS;
            const SB: u32 = <$S>::BITS;
            let len = s.usize();
            s.assume(len <= $maxlen);
            let mut data = [0 as $W; $maxlen];
            let mut i = 0;
            while i < len {
                data[i] = s.$w();
                i += 1;
            }
            let v: Vec<$W> = data[..len].to_vec();
            match AnsCoder::<$W, $S, Vec<$W>>::from_compressed(v) {
                Err(back) => {
                    // refused iff non-empty and the last word is zero; the data is handed back
                    assert!(len > 0 && data[len - 1] == 0);
                    core::mem::forget(back);
                }
                Ok(c) => {
                    assert!(len == 0 || data[len - 1] != 0);
                    let st = Code::state(&c);
                    assert!(c.bulk().len() == 0 || st >= (1 as $S) << (SB - WB));
                    assert!(c.is_empty() == (len == 0));
                    assert!(c.num_words() == len);
                    assert!(c.num_bits() == len * WB as usize);
                    // export is the identity
                    let out = c.into_compressed().ok().unwrap();
                    assert!(out.len() == len);
                    let mut i = 0;
                    while i < len {
                        assert!(out[i] == data[i]);
                        i += 1;
                    }
                    core::mem::forget(out);
                }
            }
            vcover!(len == $maxlen);
            vcover!(len == 0);
        });

        // Any invariant-satisfying raw state: consuming export = bulk ++ state words (least significant
        // first, leading zero words dropped); size/emptiness queries and the iterator view report exactly that.
        harness!($export, unwind = 8, |s| {
            const WB: u32 = <$W>::BITS;
            const SB: u32 = <$S>::BITS;
            const NS: usize = (SB / WB) as usize;
            let blen = s.usize();
            s.assume(blen <= 1);
            let b0 = s.$w();
            let state = s.$sget();
            s.assume(blen == 0 || state >= (1 as $S) << (SB - WB));
            // independent expectation, by plain arithmetic
            let mut want = [0 as $W; NS + 1];
            let mut n = 0usize;
            if blen == 1 {
                want[0] = b0;
                n = 1;
            }
            let mut rest = state;
            while rest != 0 {
                want[n] = rest as $W;
                rest = if WB == SB { 0 } else { rest >> WB };
                n += 1;
            }
            let mut bulk: Vec<$W> = Vec::with_capacity(NS + 2);
            if blen >= 1 {
                bulk.push(b0);
            }
            let c = AnsCoder::<$W, $S, Vec<$W>>::from_raw_parts(bulk, state);
            assert!(c.num_words() == n);
            assert!(c.num_bits() == n * WB as usize);
            assert!(c.is_empty() == (n == 0));
            assert!(<AnsCoder<$W, $S, Vec<$W>> as Decode<1>>::maybe_exhausted(&c) == (n == 0));
            {
                let mut it = c.iter_compressed();
                let mut i = 0;
                while i < n {
                    assert!(it.next() == Some(want[i]));
                    i += 1;
                }
                assert!(it.next().is_none());
            }
            let out = c.into_compressed().ok().unwrap();
            assert!(out.len() == n);
            let mut i = 0;
            while i < n {
                assert!(out[i] == want[i]);
                i += 1;
            }
            assert!(n == 0 || out[n - 1] != 0);
            vcover!(blen == 1 && n == 1 + NS);
            vcover!(n == 0);
            vcover!(n == 1);
            core::mem::forget(out);
        });

        // Borrowing view + temporary decoder + re-import: the view shows the same words, dropping it
        // restores the raw parts exactly; from_compressed(into_compressed(c)) has the same raw parts.
        harness!($view, unwind = 8, |s| {
            const WB: u32 = <$W>::BITS;
            const SB: u32 = <$S>::BITS;
            const NS: usize = (SB / WB) as usize;
            let blen = s.usize();
            s.assume(blen <= 1);
            let b0 = s.$w();
            let state = s.$sget();
            s.assume(blen == 0 || state >= (1 as $S) << (SB - WB));
            let mut want = [0 as $W; NS + 1];
            let mut n = 0usize;
            if blen == 1 {
                want[0] = b0;
                n = 1;
            }
            let mut rest = state;
            while rest != 0 {
                want[n] = rest as $W;
                rest = if WB == SB { 0 } else { rest >> WB };
                n += 1;
            }
            let mut bulk: Vec<$W> = Vec::with_capacity(NS + 2);
            if blen >= 1 {
                bulk.push(b0);
            }
            let mut c = AnsCoder::<$W, $S, Vec<$W>>::from_raw_parts(bulk, state);
            {
                let g = c.get_compressed().ok().unwrap();
                assert!(g.len() == n);
                let mut i = 0;
                while i < n {
                    assert!(g[i] == want[i]);
                    i += 1;
                }
            }
            assert!(Code::state(&c) == state);
            assert!(c.bulk().len() == blen);
            if blen >= 1 {
                assert!(c.bulk()[0] == b0);
            }
            {
                let d = <AnsCoder<$W, $S, Vec<$W>> as constriction::stream::AsDecoder<'_, 1>>::as_decoder(&c);
                assert!(Code::state(&d) == state);
                assert!(d.bulk().pos() == blen);
            }
            core::mem::forget(c);
            vcover!(blen == 1 && n == 1 + NS);
            vcover!(n == 0);
        });

        // from_compressed(into_compressed(c)) has the same raw parts as c.
        harness!($reimport, unwind = 8, |s| {
            const WB: u32 = <$W>::BITS;
            const SB: u32 = <$S>::BITS;
            const NS: usize = (SB / WB) as usize;
            let blen = s.usize();
            s.assume(blen <= 1);
            let b0 = s.$w();
            let state = s.$sget();
            s.assume(blen == 0 || state >= (1 as $S) << (SB - WB));
            let mut bulk: Vec<$W> = Vec::with_capacity(NS + 2);
            if blen >= 1 {
                bulk.push(b0);
            }
            let c = AnsCoder::<$W, $S, Vec<$W>>::from_raw_parts(bulk, state);
            let out = c.into_compressed().ok().unwrap();
            match AnsCoder::<$W, $S, Vec<$W>>::from_compressed(out) {
                Ok(c2) => {
                    assert!(Code::state(&c2) == state);
                    assert!(c2.bulk().len() == blen);
                    if blen >= 1 {
                        assert!(c2.bulk()[0] == b0);
                    }
                    core::mem::forget(c2);
                }
                Err(e) => {
                    core::mem::forget(e);
                    assert!(false);
                }
            }
            vcover!(blen == 1);
            vcover!(state == 0);
        });

        // Raw binary data with arbitrary content (zero words anywhere): from_binary / get_binary /
        // into_binary / num_valid_bits are exact; equivalent to from_compressed(data ++ [1]).
        harness!($binary, unwind = 8, |s| {
            const WB: u32 = <$W>::BITS;
            const SB: u32 = <$S>::BITS;
            let len = s.usize();
            s.assume(len <= $maxlen);
            let mut data = [0 as $W; $maxlen];
            let mut i = 0;
            while i < len {
                data[i] = s.$w();
                i += 1;
            }
            let v: Vec<$W> = data[..len].to_vec();
            let mut c = match AnsCoder::<$W, $S, Vec<$W>>::from_binary(v) {
                Ok(c) => c,
                Err(_) => unreachable!(),
            };
            let st = Code::state(&c);
            let bl = c.bulk().len();
            assert!(bl == 0 || st >= (1 as $S) << (SB - WB));
            assert!(!c.is_empty());
            assert!(c.num_valid_bits() == len * WB as usize);
            // same coder as appending a 1 word and importing as compressed data
            {
                let mut v1: Vec<$W> = data[..len].to_vec();
                v1.push(1);
                match AnsCoder::<$W, $S, Vec<$W>>::from_compressed(v1) {
                    Ok(c1) => {
                        assert!(Code::state(&c1) == st && c1.bulk().len() == bl);
                        core::mem::forget(c1);
                    }
                    Err(e) => {
                        core::mem::forget(e);
                        assert!(false);
                    }
                }
            }
            {
                let g = match c.get_binary() {
                    Ok(g) => g,
                    Err(_) => {
                        assert!(false);
                        return;
                    }
                };
                assert!(g.len() == len);
                let mut i = 0;
                while i < len {
                    assert!(g[i] == data[i]);
                    i += 1;
                }
            }
            assert!(Code::state(&c) == st && c.bulk().len() == bl);
            let out = match c.into_binary() {
                Ok(o) => o,
                Err(_) => {
                    assert!(false);
                    return;
                }
            };
            assert!(out.len() == len);
            let mut i = 0;
            while i < len {
                assert!(out[i] == data[i]);
                i += 1;
            }
            vcover!(len == $maxlen && data[$maxlen - 1] == 0);
            vcover!(len == 0);
            core::mem::forget(out);
        });

        // get_binary / into_binary on any invariant state: both accessors agree with each other and with
        // get_compressed (payload = compressed words minus the final 1 word), an `Err` writes nothing.
        harness!($guards, unwind = 8, |s| {
            const WB: u32 = <$W>::BITS;
            const SB: u32 = <$S>::BITS;
            let blen = s.usize();
            s.assume(blen <= 1);
            let b0 = s.$w();
            let state = s.$sget();
            s.assume(blen == 0 || state >= (1 as $S) << (SB - WB));
            let mut bulk: Vec<$W> = Vec::with_capacity(8);
            if blen >= 1 {
                bulk.push(b0);
            }
            let mut c = AnsCoder::<$W, $S, Vec<$W>>::from_raw_parts(bulk, state);
            let comp = c.clone().into_compressed().ok().unwrap();
            let n = comp.len();
            let sealed = n > 0 && comp[n - 1] == 1;
            let owned = c.clone().into_binary();
            let mut glen = usize::MAX;
            {
                match c.get_binary() {
                    Ok(g) => {
                        glen = g.len();
                        assert!(sealed);
                        assert!(glen == n - 1);
                        let mut i = 0;
                        while i < glen {
                            assert!(g[i] == comp[i]);
                            i += 1;
                        }
                    }
                    Err(_) => assert!(!sealed),
                }
            }
            // the coder is untouched after the view is dropped (or was refused)
            assert!(Code::state(&c) == state);
            assert!(c.bulk().len() == blen);
            if blen >= 1 {
                assert!(c.bulk()[0] == b0);
            }
            match owned {
                Ok(o) => {
                    assert!(sealed);
                    assert!(o.len() == n - 1);
                    let mut i = 0;
                    while i + 1 < n {
                        assert!(o[i] == comp[i]);
                        i += 1;
                    }
                    core::mem::forget(o);
                }
                Err(_) => assert!(!sealed),
            }
            vcover!(sealed && n == 3);
            vcover!(!sealed && n > 0);
            core::mem::forget(c);
            core::mem::forget(comp);
        });
    };
}

ans_harnesses!(u8, u16, u8, u16, 3, ctor_u8_u16, export_u8_u16, view_u8_u16, reimport_u8_u16, binary_u8_u16, guards_u8_u16);
ans_harnesses!(u16, u32, u16, u32, 3, ctor_u16_u32, export_u16_u32, view_u16_u32, reimport_u16_u32, binary_u16_u32, guards_u16_u32);
ans_harnesses!(u32, u64, u32, u64, 3, ctor_u32_u64, export_u32_u64, view_u32_u64, reimport_u32_u64, binary_u32_u64, guards_u32_u64);
ans_harnesses!(u8, u32, u8, u32, 5, ctor_u8_u32, export_u8_u32, view_u8_u32, reimport_u8_u32, binary_u8_u32, guards_u8_u32);

dispatch!(
    ctor_u8_u16, export_u8_u16, view_u8_u16, reimport_u8_u16, binary_u8_u16, guards_u8_u16,
    ctor_u16_u32, export_u16_u32, view_u16_u32, reimport_u16_u32, binary_u16_u32, guards_u16_u32,
    ctor_u32_u64, export_u32_u64, view_u32_u64, reimport_u32_u64, binary_u32_u64, guards_u32_u64,
    ctor_u8_u32, export_u8_u32, view_u8_u32, reimport_u8_u32, binary_u8_u32, guards_u8_u32
);
