macro_rules! files {
    ($($f:ident),* $(,)?) => {
        $(pub mod $f;)*
        pub fn dispatch(file: &str, name: &str, src: &mut crate::ksrc::ReplaySrc) -> bool {
            match file {
                $(stringify!($f) => $f::dispatch(name, src),)*
                _ => false,
            }
        }
    };
}
files!(c17, ans, kk, bits, models, rangek);
