pub mod c17;

pub fn dispatch(file: &str, name: &str, src: &mut crate::ksrc::ReplaySrc) -> bool {
    match file {
        "c17" => c17::dispatch(name, src),
        _ => false,
    }
}
