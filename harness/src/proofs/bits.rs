//! C16 (bit-level stack / queue coders, Exp-Golomb), C08 (bit-coder guards), C15 (Huffman codebooks).
use crate::common::*;
use crate::ksrc::Src;
use crate::{dispatch, harness, vcover};
use constriction::backends::*;
use constriction::symbol::exp_golomb::ExpGolomb;
use constriction::symbol::huffman::{DecoderHuffmanTree, EncoderHuffmanTree};
use constriction::symbol::{
    DecoderCodebook, EncoderCodebook, QueueDecoder, QueueEncoder, ReadBitStream, StackCoder, WriteBitStream,
};
use constriction::{Queue, Stack};

// ------------------------------------------------------------------ C16: LIFO script
harness!(stack_lifo_script, unwind = 12, |s| {
    // start from an arbitrary pre-filled coder (imported words: any content, any fill level of the last
    // word), so that a short script crosses word boundaries in both directions
    let nw = s.usize();
    s.assume(nw <= 2);
    let w0 = s.u8();
    let w1 = s.u8();
    let mut init: Vec<u8> = Vec::with_capacity(6);
    let mut model: u32 = 0; // bit i = i-th bit of the content (bottom first)
    let mut n: usize = 0;
    if nw == 1 {
        s.assume(w0 != 0);
        init.push(w0);
        let top = 7 - w0.leading_zeros() as usize;
        model = (w0 as u32) & ((1u32 << top) - 1);
        n = top;
    } else if nw == 2 {
        s.assume(w1 != 0);
        init.push(w0);
        init.push(w1);
        let top = 7 - w1.leading_zeros() as usize;
        model = (w0 as u32) | (((w1 as u32) & ((1u32 << top) - 1)) << 8);
        n = 8 + top;
    }
    let mut c = match StackCoder::<u8, Vec<u8>>::from_compressed(init) {
        Ok(c) => c,
        Err(_) => {
            assert!(false);
            return;
        }
    };
    assert!(c.len() == n);
    let mut i = 0;
    while i < 6 {
        let op = s.bool();
        let bit = s.bool();
        if op {
            assert!(c.write_bit(bit).is_ok());
            if bit {
                model |= 1 << n;
            } else {
                model &= !(1 << n);
            }
            n += 1;
        } else {
            let got = c.read_bit().ok().unwrap();
            if n == 0 {
                assert!(got.is_none());
            } else {
                n -= 1;
                assert!(got == Some((model >> n) & 1 == 1));
            }
        }
        assert!(c.len() == n);
        assert!(c.is_empty() == (n == 0));
        i += 1;
    }
    // the final export is the serialisation of the reference content plus the end marker
    let out = c.into_compressed().ok().unwrap();
    assert!(out.len() == n / 8 + 1);
    let sealed: u32 = (model & ((1u32 << n) - 1)) | (1u32 << n);
    let mut j = 0;
    while j < out.len() {
        assert!(out[j] == (sealed >> (8 * j)) as u8);
        j += 1;
    }
    vcover!(n == 21);
    vcover!(nw == 2 && n == 7);
    vcover!(n == 0);
    core::mem::forget(out);
});

// ------------------------------------------------------------------ C16: export / re-import, every fill level
harness!(stack_export_import, unwind = 20, |s| {
    let k = s.usize();
    s.assume(k <= 17);
    let bits = s.u32();
    let mut c = StackCoder::<u8, Vec<u8>>::new();
    let mut i = 0;
    while i < k {
        assert!(c.write_bit((bits >> i) & 1 == 1).is_ok());
        i += 1;
    }
    assert!(c.len() == k);
    let words = c.into_compressed().ok().unwrap();
    // exported data never ends in a zero word and is as short as possible
    assert!(words.len() == k / 8 + 1);
    assert!(words[words.len() - 1] != 0);
    let mut c2 = match StackCoder::<u8, Vec<u8>>::from_compressed(words) {
        Ok(c) => c,
        Err(_) => {
            assert!(false);
            return;
        }
    };
    // same content: same length, same bits in reverse order, then empty
    assert!(c2.len() == k);
    let mut i = k;
    while i > 0 {
        i -= 1;
        let got = c2.read_bit().ok().unwrap();
        assert!(got == Some((bits >> i) & 1 == 1));
    }
    assert!(c2.read_bit().ok().unwrap().is_none());
    assert!(c2.is_empty());
    vcover!(k == 0);
    vcover!(k == 7);
    vcover!(k == 8);
    vcover!(k == 9);
    vcover!(k == 17);
    core::mem::forget(c2);
});

// re-imported coder exports the same words again, and a zero last word is refused
harness!(stack_reexport, unwind = 12, |s| {
    let k = s.usize();
    s.assume(k <= 9);
    let bits = s.u16();
    let mut c = StackCoder::<u8, Vec<u8>>::new();
    let mut i = 0;
    while i < k {
        assert!(c.write_bit((bits >> i) & 1 == 1).is_ok());
        i += 1;
    }
    let words = c.into_compressed().ok().unwrap();
    let n = words.len();
    let w0 = words[0];
    let w1 = if n > 1 { words[1] } else { 0 };
    let c2 = StackCoder::<u8, Vec<u8>>::from_compressed(words).ok().unwrap();
    let again = c2.into_compressed().ok().unwrap();
    assert!(again.len() == n);
    assert!(again[0] == w0);
    if n > 1 {
        assert!(again[1] == w1);
    }
    core::mem::forget(again);
    let mut z: Vec<u8> = Vec::with_capacity(2);
    z.push(s.u8());
    z.push(0);
    assert!(StackCoder::<u8, Vec<u8>>::from_compressed(z).is_err());
    vcover!(k == 8);
    vcover!(k == 9);
});

// ------------------------------------------------------------------ C16: FIFO
harness!(queue_fifo, unwind = 22, |s| {
    let k = s.usize();
    s.assume(k <= 17);
    let bits = s.u32();
    let mut q = QueueEncoder::<u8, Vec<u8>>::new();
    let mut i = 0;
    while i < k {
        assert!(q.write_bit((bits >> i) & 1 == 1).is_ok());
        i += 1;
    }
    assert!(q.len() == k);
    assert!(q.is_empty() == (k == 0));
    let mut d = q.into_decoder().ok().unwrap();
    let mut i = 0;
    while i < k {
        let got = d.read_bit().ok().unwrap();
        assert!(got == Some((bits >> i) & 1 == 1));
        i += 1;
    }
    // zero padding up to the word boundary, then end of data
    let pad = (8 - k % 8) % 8;
    let mut j = 0;
    while j < pad {
        assert!(d.maybe_exhausted());
        assert!(d.read_bit().ok().unwrap() == Some(false));
        j += 1;
    }
    assert!(d.read_bit().ok().unwrap().is_none());
    vcover!(k == 17);
    vcover!(k == 16);
    vcover!(k == 0);
    core::mem::forget(d);
});

// ------------------------------------------------------------------ C08: bit-coder guards
harness!(stack_guard, unwind = 14, |s| {
    let k = s.usize();
    s.assume(k <= 9);
    let bits = s.u16();
    let mut c = StackCoder::<u8, Vec<u8>>::new();
    let mut i = 0;
    while i < k {
        assert!(c.write_bit((bits >> i) & 1 == 1).is_ok());
        i += 1;
    }
    let mut e = StackCoder::<u8, Vec<u8>>::new();
    let mut i = 0;
    while i < k {
        assert!(e.write_bit((bits >> i) & 1 == 1).is_ok());
        i += 1;
    }
    let expect = e.into_compressed().ok().unwrap();
    {
        let g = c.get_compressed();
        assert!(g.len() == expect.len());
        let mut i = 0;
        while i < expect.len() {
            assert!(g[i] == expect[i]);
            i += 1;
        }
    }
    // observationally untouched: same length, same export, same behaviour for two further operations
    assert!(c.len() == k);
    let op1 = s.bool();
    let b1 = s.bool();
    let mut twin = StackCoder::<u8, Vec<u8>>::new();
    let mut i = 0;
    while i < k {
        assert!(twin.write_bit((bits >> i) & 1 == 1).is_ok());
        i += 1;
    }
    if op1 {
        assert!(c.write_bit(b1).is_ok());
        assert!(twin.write_bit(b1).is_ok());
    } else {
        let x = c.read_bit().ok().unwrap();
        let y = twin.read_bit().ok().unwrap();
        assert!(x == y);
    }
    assert!(c.len() == twin.len());
    let a = c.into_compressed().ok().unwrap();
    let b = twin.into_compressed().ok().unwrap();
    assert!(a.len() == b.len());
    let mut i = 0;
    while i < a.len() {
        assert!(a[i] == b[i]);
        i += 1;
    }
    vcover!(k == 8);
    vcover!(k == 7);
    vcover!(k == 0);
    core::mem::forget(a);
    core::mem::forget(b);
    core::mem::forget(expect);
});

harness!(queue_guard, unwind = 14, |s| {
    let k = s.usize();
    s.assume(k <= 9);
    let bits = s.u16();
    let mut q = QueueEncoder::<u8, Vec<u8>>::new();
    let mut i = 0;
    while i < k {
        assert!(q.write_bit((bits >> i) & 1 == 1).is_ok());
        i += 1;
    }
    let mut e = QueueEncoder::<u8, Vec<u8>>::new();
    let mut i = 0;
    while i < k {
        assert!(e.write_bit((bits >> i) & 1 == 1).is_ok());
        i += 1;
    }
    let expect = e.into_compressed().ok().unwrap();
    {
        let g = q.get_compressed();
        assert!(g.len() == expect.len());
        let mut i = 0;
        while i < expect.len() {
            assert!(g[i] == expect[i]);
            i += 1;
        }
    }
    assert!(q.len() == k);
    let b1 = s.bool();
    let mut twin = QueueEncoder::<u8, Vec<u8>>::new();
    let mut i = 0;
    while i < k {
        assert!(twin.write_bit((bits >> i) & 1 == 1).is_ok());
        i += 1;
    }
    assert!(q.write_bit(b1).is_ok());
    assert!(twin.write_bit(b1).is_ok());
    let a = q.into_compressed().ok().unwrap();
    let b = twin.into_compressed().ok().unwrap();
    assert!(a.len() == b.len());
    let mut i = 0;
    while i < a.len() {
        assert!(a[i] == b[i]);
        i += 1;
    }
    vcover!(k == 8);
    vcover!(k == 0);
    core::mem::forget(a);
    core::mem::forget(b);
    core::mem::forget(expect);
});

// ------------------------------------------------------------------ C16: Exp-Golomb, every value of the type
macro_rules! expgolomb {
    ($name:ident, $N:ty, $get:ident, $unw:expr) => {
        harness!($name, unwind = $unw, |s| {
            const NB: usize = <$N>::BITS as usize;
            let v: $N = s.$get();
            let cb = ExpGolomb::<$N>::new();
            let mut pre = [false; 2 * NB + 1];
            let mut np = 0usize;
            let r = cb.encode_symbol_prefix(v, |b| {
                pre[np] = b;
                np += 1;
                Result::<(), ()>::Ok(())
            });
            assert!(r.is_ok());
            // codeword length 2*floor(log2(v+1)) + 1 (v = MAX: 2*BITS + 1)
            let want_len = if v == <$N>::MAX { 2 * NB + 1 } else { 2 * (NB - 1 - (v + 1).leading_zeros() as usize) + 1 };
            assert!(np == want_len);
            let mut suf = [false; 2 * NB + 1];
            let mut ns = 0usize;
            let r = cb.encode_symbol_suffix(v, |b| {
                suf[ns] = b;
                ns += 1;
                Result::<(), ()>::Ok(())
            });
            assert!(r.is_ok());
            assert!(ns == np);
            let mut i = 0;
            while i < np {
                assert!(suf[i] == pre[np - 1 - i]);
                i += 1;
            }
            // decodes back, consuming exactly the codeword
            let mut pos = 0usize;
            let d = cb.decode_symbol(core::iter::from_fn(|| {
                if pos < np {
                    pos += 1;
                    Some(Result::<bool, ()>::Ok(pre[pos - 1]))
                } else {
                    None
                }
            }));
            assert!(d.is_ok());
            assert!(d.ok().unwrap() == v);
            assert!(pos == np);
            // a truncated codeword is an error, never a wrong symbol
            let cut = s.usize();
            s.assume(cut < np);
            let mut pos2 = 0usize;
            let d2 = cb.decode_symbol(core::iter::from_fn(|| {
                if pos2 < cut {
                    pos2 += 1;
                    Some(Result::<bool, ()>::Ok(pre[pos2 - 1]))
                } else {
                    None
                }
            }));
            assert!(d2.is_err());
            vcover!(v == <$N>::MAX);
            vcover!(v == 0);
        });
    };
}
expgolomb!(expgolomb_u8, u8, u8, 20);
expgolomb!(expgolomb_u16, u16, u16, 36);

// Exp-Golomb through the real bit coders: prefix codes via the queue, suffix codes via the stack
harness!(expgolomb_through_coders, unwind = 20, |s| {
    let a: u8 = s.u8();
    let b: u8 = s.u8();
    s.assume(a < 7 && b < 7); // <= 5 bits each keeps the Vec small; all 256 values are covered above
    let cb = ExpGolomb::<u8>::new();
    let mut q = QueueEncoder::<u8, Vec<u8>>::new();
    assert!(q.encode_symbol(a, &cb).is_ok());
    assert!(q.encode_symbol(b, &cb).is_ok());
    let mut d = q.into_decoder().ok().unwrap();
    assert!(d.decode_symbol(&cb).ok() == Some(a));
    assert!(d.decode_symbol(&cb).ok() == Some(b));
    let mut st = StackCoder::<u8, Vec<u8>>::new();
    assert!(st.encode_symbol(a, &cb).is_ok());
    assert!(st.encode_symbol(b, &cb).is_ok());
    assert!(st.decode_symbol(&cb).ok() == Some(b));
    assert!(st.decode_symbol(&cb).ok() == Some(a));
    assert!(st.is_empty());
    core::mem::forget(d);
    core::mem::forget(st);
});

// ------------------------------------------------------------------ C15: Huffman codebooks
fn huff_suffix(enc: &EncoderHuffmanTree, sym: usize, bits: &mut [bool; 4]) -> Option<usize> {
    let mut n = 0usize;
    let r = enc.encode_symbol_suffix(sym, |b| {
        if n < 4 {
            bits[n] = b;
        }
        n += 1;
        Result::<(), ()>::Ok(())
    });
    if r.is_ok() {
        Some(n)
    } else {
        None
    }
}

/// reference merge WITHOUT a heap: repeatedly take the two smallest by (weight, index); the merged node gets
/// the next index. Returns the codeword lengths.
fn ref_lengths<const N: usize>(w: &[u32; N]) -> [usize; N] {
    let mut weight = [0u64; 8];
    let mut alive = [false; 8];
    let mut parent = [usize::MAX; 8];
    let mut i = 0;
    while i < N {
        weight[i] = w[i] as u64;
        alive[i] = true;
        i += 1;
    }
    let mut next = N;
    let mut round = 0;
    while round + 1 < N {
        let mut a = usize::MAX;
        let mut b = usize::MAX;
        let mut i = 0;
        while i < next {
            if alive[i] {
                if a == usize::MAX || weight[i] < weight[a] {
                    b = a;
                    a = i;
                } else if b == usize::MAX || weight[i] < weight[b] {
                    b = i;
                }
            }
            i += 1;
        }
        alive[a] = false;
        alive[b] = false;
        weight[next] = weight[a] + weight[b];
        alive[next] = true;
        parent[a] = next;
        parent[b] = next;
        next += 1;
        round += 1;
    }
    let mut len = [0usize; N];
    let mut i = 0;
    while i < N {
        let mut x = i;
        let mut guard = 0;
        while parent[x] != usize::MAX && guard < 8 {
            x = parent[x];
            len[i] += 1;
            guard += 1;
        }
        i += 1;
    }
    len
}

/// the same reference merge over (non-NaN) f32 weights: ties -- including equal infinities -- go to the lower index.
/// reference merge WITHOUT a heap: repeatedly take the two smallest by (weight, index); the merged node gets
/// the next index. Returns the codeword lengths.
fn ref_lengths_f32<const N: usize>(w: &[f32; N]) -> [usize; N] {
    let mut weight = [0f32; 8];
    let mut alive = [false; 8];
    let mut parent = [usize::MAX; 8];
    let mut i = 0;
    while i < N {
        weight[i] = w[i];
        alive[i] = true;
        i += 1;
    }
    let mut next = N;
    let mut round = 0;
    while round + 1 < N {
        let mut a = usize::MAX;
        let mut b = usize::MAX;
        let mut i = 0;
        while i < next {
            if alive[i] {
                if a == usize::MAX || weight[i] < weight[a] {
                    b = a;
                    a = i;
                } else if b == usize::MAX || weight[i] < weight[b] {
                    b = i;
                }
            }
            i += 1;
        }
        alive[a] = false;
        alive[b] = false;
        weight[next] = weight[a] + weight[b];
        alive[next] = true;
        parent[a] = next;
        parent[b] = next;
        next += 1;
        round += 1;
    }
    let mut len = [0usize; N];
    let mut i = 0;
    while i < N {
        let mut x = i;
        let mut guard = 0;
        while parent[x] != usize::MAX && guard < 8 {
            x = parent[x];
            len[i] += 1;
            guard += 1;
        }
        i += 1;
    }
    len
}

macro_rules! huffman {
    ($name:ident, $N:expr, $unw:expr) => {
        harness!($name, unwind = $unw, |s| {
            const N: usize = $N;
            let w8: [u8; N] = s.arr_u8::<N>();
            let mut w = [0u32; N];
            let mut i = 0;
            while i < N {
                w[i] = w8[i] as u32;
                i += 1;
            }
            let enc = EncoderHuffmanTree::from_probabilities::<u32, _>(w.iter());
            let dec = DecoderHuffmanTree::from_probabilities::<u32, _>(w.iter());
            assert!(enc.num_symbols() == N && dec.num_symbols() == N);
            let want = ref_lengths::<N>(&w);
            let mut lens = [0usize; N];
            let mut codes = [[false; 4]; N];
            let mut total: u64 = 0;
            let mut kraft_num: u32 = 0; // sum 2^(3 - len) ; equality <=> 8
            let mut sym = 0;
            while sym < N {
                let mut bits = [false; 4];
                let n = match huff_suffix(&enc, sym, &mut bits) {
                    Some(n) => n,
                    None => {
                        assert!(false);
                        return;
                    }
                };
                assert!(n < N && n <= 3);
                if N > 1 {
                    assert!(n >= 1);
                }
                lens[sym] = n;
                // ties are broken by symbol index: lengths equal those of the heap-free reference merge
                assert!(n == want[sym]);
                // prefix form = reversed suffix form; decodes to the symbol, consuming exactly those bits
                let mut k = 0;
                while k < n {
                    codes[sym][k] = bits[n - 1 - k];
                    k += 1;
                }
                let mut pos = 0usize;
                let d = dec.decode_symbol(core::iter::from_fn(|| {
                    if pos < n {
                        pos += 1;
                        Some(Result::<bool, ()>::Ok(codes[sym][pos - 1]))
                    } else {
                        None
                    }
                }));
                assert!(d.is_ok());
                assert!(d.ok().unwrap() == sym);
                assert!(pos == n);
                total += w[sym] as u64 * n as u64;
                kraft_num += 1 << (3 - n);
                sym += 1;
            }
            if N >= 2 {
                assert!(kraft_num == 8); // Kraft equality
            }
            // prefix-free
            let mut a = 0;
            while a < N {
                let mut b = 0;
                while b < N {
                    if a != b && lens[a] <= lens[b] {
                        let mut same = true;
                        let mut k = 0;
                        while k < lens[a] {
                            if codes[a][k] != codes[b][k] {
                                same = false;
                            }
                            k += 1;
                        }
                        assert!(!same);
                    }
                    b += 1;
                }
                a += 1;
            }
            // optimal: no assignment of a complete length vector costs less. Complete length multisets for
            // N <= 4: {1,1}; {1,2,2}; {2,2,2,2}, {1,2,3,3} -- in every permutation chosen symbolically.
            if N >= 2 {
                let shape = s.bool();
                let base: [usize; 4] = if N == 2 { [1, 1, 0, 0] } else if N == 3 { [1, 2, 2, 0] } else if shape { [2, 2, 2, 2] } else { [1, 2, 3, 3] };
                let mut perm = [0usize; N];
                let mut used = [false; N];
                let mut i = 0;
                while i < N {
                    let j = s.usize();
                    s.assume(j < N && !used[j]);
                    used[j] = true;
                    perm[i] = j;
                    i += 1;
                }
                let mut alt: u64 = 0;
                let mut i = 0;
                while i < N {
                    alt += w[i] as u64 * base[perm[i]] as u64;
                    i += 1;
                }
                assert!(total <= alt);
            }
            // symbols outside the alphabet are rejected
            let bad = s.usize();
            s.assume(bad >= N);
            let mut bits = [false; 4];
            assert!(huff_suffix(&enc, bad, &mut bits).is_none());
            core::mem::forget(enc);
            core::mem::forget(dec);
        });
    };
}
huffman!(huffman_n1, 1, 6);
huffman!(huffman_n2, 2, 6);
huffman!(huffman_n3, 3, 8);
huffman!(huffman_n4, 4, 10);

// float weights: NaN is an error; zeros / infinities / repeated weights still give a consistent code
harness!(huffman_float_n3, unwind = 8, |s| {
    let w: [f32; 3] = [s.f32(), s.f32(), s.f32()];
    let any_nan = w[0].is_nan() || w[1].is_nan() || w[2].is_nan();
    s.assume(any_nan || (w[0] >= 0.0 && w[1] >= 0.0 && w[2] >= 0.0));
    let enc = EncoderHuffmanTree::from_float_probabilities::<f32, _>(w.iter());
    let dec = DecoderHuffmanTree::from_float_probabilities::<f32, _>(w.iter());
    assert!(enc.is_err() == any_nan);
    assert!(dec.is_err() == any_nan);
    if let (Ok(enc), Ok(dec)) = (enc, dec) {
        let sym = s.usize();
        s.assume(sym < 3);
        let mut bits = [false; 4];
        let n = huff_suffix(&enc, sym, &mut bits).unwrap();
        assert!(n >= 1 && n <= 2);
        // ties (equal weights, zeros, equal infinities) are broken by symbol index exactly as for integer weights
        let want = ref_lengths_f32::<3>(&w);
        assert!(n == want[sym]);
        let mut pos = n;
        let d = dec.decode_symbol(core::iter::from_fn(|| {
            if pos > 0 {
                pos -= 1;
                Some(Result::<bool, ()>::Ok(bits[pos]))
            } else {
                None
            }
        }));
        assert!(d.is_ok());
        assert!(d.ok().unwrap() == sym);
        assert!(pos == 0);
        core::mem::forget(enc);
        core::mem::forget(dec);
    }
    vcover!(any_nan);
    vcover!(!any_nan && w[0] == 0.0 && w[1].is_infinite());
});

// two float weights: NaN is an error; zero / infinite / equal weights give the two one-bit codewords
harness!(huffman_float_n2, unwind = 6, |s| {
    let w: [f32; 2] = [s.f32(), s.f32()];
    let any_nan = w[0].is_nan() || w[1].is_nan();
    s.assume(any_nan || (w[0] >= 0.0 && w[1] >= 0.0));
    let enc = EncoderHuffmanTree::from_float_probabilities::<f32, _>(w.iter());
    let dec = DecoderHuffmanTree::from_float_probabilities::<f32, _>(w.iter());
    assert!(enc.is_err() == any_nan);
    assert!(dec.is_err() == any_nan);
    if let (Ok(enc), Ok(dec)) = (enc, dec) {
        let sym = s.usize();
        s.assume(sym < 2);
        let mut bits = [false; 4];
        let n = huff_suffix(&enc, sym, &mut bits).unwrap();
        assert!(n == 1);
        // with two symbols only the ORDER of the weights (ties by index) can matter: the codeword equals the one the
        // integer constructor assigns to order-isomorphic integer weights
        let ranks = [(w[0] > w[1]) as u32, (w[1] > w[0]) as u32];
        let ienc = EncoderHuffmanTree::from_probabilities::<u32, _>(ranks.iter());
        let mut ibits = [false; 4];
        let m = huff_suffix(&ienc, sym, &mut ibits).unwrap();
        assert!(m == 1 && ibits[0] == bits[0]);
        core::mem::forget(ienc);
        let mut pos = n;
        let d = dec.decode_symbol(core::iter::from_fn(|| {
            if pos > 0 {
                pos -= 1;
                Some(Result::<bool, ()>::Ok(bits[pos]))
            } else {
                None
            }
        }));
        assert!(d.is_ok());
        assert!(d.ok().unwrap() == sym);
        core::mem::forget(enc);
        core::mem::forget(dec);
    }
    vcover!(any_nan);
    vcover!(!any_nan && w[0] == w[1]);
});

dispatch!(
    huffman_float_n2,
    stack_lifo_script, stack_export_import, stack_reexport, queue_fifo, stack_guard, queue_guard,
    expgolomb_u8, expgolomb_u16, expgolomb_through_coders,
    huffman_n1, huffman_n2, huffman_n3, huffman_n4, huffman_float_n3
);
