//! Range encoder over the library's real `Vec` back end: temporary views, decoder views and size
//! queries from any raw state (C08, C18); ANS seeking over Vec / Cursor back ends (C07).
use crate::common::*;
use crate::ksrc::Src;
use crate::{dispatch, harness, vcover};
use constriction::backends::*;
use constriction::stream::queue::{EncoderSituation, RangeCoderState, RangeDecoder, RangeEncoder};
use constriction::stream::stack::AnsCoder;
use constriction::stream::{Code, Decode, Encode};
use constriction::{Pos, Seek};
use core::num::NonZeroUsize;

macro_rules! range_guard {
    ($name:ident, $W:ty, $S:ty, $w:ident, $sget:ident, $inverted:expr) => {
        range_guard!($name, $W, $S, $w, $sget, $inverted, None);
    };
    ($name:ident, $W:ty, $S:ty, $w:ident, $sget:ident, $inverted:expr, $nfix:expr) => {
        harness!($name, unwind = 8, |s| {
            const WB: u32 = <$W>::BITS;
            const SB: u32 = <$S>::BITS;
            let lower = s.$sget();
            let range = s.$sget();
            let st = match RangeCoderState::<$W, $S>::new(lower, range) {
                Ok(x) => x,
                Err(_) => return,
            };
            let wraps = lower.wrapping_add(range) <= lower;
            // run length of the inverted situation: symbolic, or fixed per harness (keeps the Vec pushes of
            // `seal` concrete for CBMC)
            let nfix: Option<usize> = $nfix;
            let n = match nfix {
                Some(v) => v,
                None => s.usize(),
            };
            let w = s.$w();
            let sit = if $inverted {
                s.assume(wraps && n >= 1 && n <= 2 && w != <$W>::MAX);
                EncoderSituation::Inverted(NonZeroUsize::new(n).unwrap(), w)
            } else {
                s.assume(!wraps);
                EncoderSituation::Normal
            };
            let blen = s.usize();
            s.assume(blen <= 1);
            let b0 = s.$w();
            // independent expectation of the sealed words (notes/range-coding.md, four-step rule)
            let mut want = [0 as $W; 8];
            let mut k = 0usize;
            if blen == 1 {
                want[0] = b0;
                k = 1;
            }
            if range != <$S>::MAX {
                let point = lower.wrapping_add((1 as $S << (SB - WB)) - 1);
                if $inverted {
                    let carried = point < lower;
                    want[k] = if carried { w + 1 } else { w };
                    k += 1;
                    let mut j = 1;
                    while j < n {
                        want[k] = if carried { 0 } else { <$W>::MAX };
                        k += 1;
                        j += 1;
                    }
                }
                let point_word = (point >> (SB - WB)) as $W;
                want[k] = point_word;
                k += 1;
                let upper_word = (lower.wrapping_add(range) >> (SB - WB)) as $W;
                if upper_word == point_word {
                    want[k] = 0;
                    k += 1;
                }
            }
            let mut bulk: Vec<$W> = Vec::with_capacity(8);
            if blen == 1 {
                bulk.push(b0);
            }
            let mut enc = RangeEncoder::<$W, $S>::from_raw_parts(bulk, st, sit);
            // size queries report exactly what exporting now returns
            assert!(enc.num_words() == k);
            assert!(enc.num_bits() == k * WB as usize);
            assert!(enc.is_empty() == (k == 0));
            {
                let g = enc.get_compressed();
                assert!(g.len() == k);
                let mut i = 0;
                while i < k {
                    assert!(g[i] == want[i]);
                    i += 1;
                }
            }
            // dropping the view restores the raw parts exactly
            {
                let (l2, r2) = (Code::state(&enc).lower(), Code::state(&enc).range().get());
                assert!(l2 == lower && r2 == range);
                assert!(enc.bulk().len() == blen);
                if blen == 1 {
                    assert!(enc.bulk()[0] == b0);
                }
            }
            let out = enc.into_compressed().ok().unwrap();
            assert!(out.len() == k);
            let mut i = 0;
            while i < k {
                assert!(out[i] == want[i]);
                i += 1;
            }
            vcover!(k == 0);
            vcover!(k >= 3);
            core::mem::forget(out);
        });
    };
}
range_guard!(range_guard_normal_u8_u16, u8, u16, u8, u16, false);
range_guard!(range_guard_inverted_u8_u16, u8, u16, u8, u16, true);
range_guard!(range_guard_normal_u16_u32, u16, u32, u16, u32, false);
range_guard!(range_guard_inverted_u16_u32, u16, u32, u16, u32, true);
range_guard!(range_guard_normal_u32_u64, u32, u64, u32, u64, false);
range_guard!(range_guard_inverted_n1_u8_u16, u8, u16, u8, u16, true, Some(1));
range_guard!(range_guard_inverted_n2_u8_u16, u8, u16, u8, u16, true, Some(2));
range_guard!(range_guard_inverted_n1_u16_u32, u16, u32, u16, u32, true, Some(1));
range_guard!(range_guard_inverted_n2_u16_u32, u16, u32, u16, u32, true, Some(2));
range_guard!(range_guard_inverted_u32_u64, u32, u64, u32, u64, true);

// temporary decoder view: dropping it leaves the encoder untouched
harness!(range_decoder_view_u8_u16, unwind = 8, |s| {
    let lower = s.u16();
    let range = s.u16();
    let st = match RangeCoderState::<u8, u16>::new(lower, range) {
        Ok(x) => x,
        Err(_) => return,
    };
    s.assume(lower.wrapping_add(range) > lower);
    let mut enc = RangeEncoder::<u8, u16>::from_raw_parts(Vec::with_capacity(8), st, EncoderSituation::Normal);
    {
        let d = enc.decoder();
        let _ = d.maybe_exhausted();
    }
    assert!(Code::state(&enc).lower() == lower && Code::state(&enc).range().get() == range);
    assert!(enc.bulk().len() == 0);
    let out = enc.into_compressed().ok().unwrap();
    core::mem::forget(out);
});

// ------------------------------------------------------------------ C07: ANS seeking (real Vec / Cursor back ends)
harness!(ans_seek_u8_u16_p4, unwind = 8, |s| {
    let m0 = Cuts::<u8, 4> { c1: s.u8(), c2: s.u8() };
    let m1 = Cuts::<u8, 4> { c1: s.u8(), c2: s.u8() };
    let s0 = s.u8();
    let s1 = s.u8();
    s.assume(m0.valid() && m1.valid() && s0 <= 2 && s1 <= 2);
    // start from any invariant state with one word below it, so that flushes are reachable within two symbols
    let st0 = s.u16();
    s.assume(st0 >= 256);
    let mut v0: Vec<u8> = Vec::with_capacity(8);
    v0.push(s.u8());
    let mut enc = AnsCoder::<u8, u16, Vec<u8>>::from_raw_parts(v0, st0);
    let p0 = enc.pos();
    assert!(enc.encode_symbol(s0, m0).is_ok());
    let p1 = enc.pos();
    assert!(enc.encode_symbol(s1, m1).is_ok());
    let p2 = enc.pos();
    // borrowed seekable decoder: any snapshot, any order
    {
        let mut d = enc.as_seekable_decoder();
        let first = s.u8();
        s.assume(first <= 2);
        let mut round = 0;
        while round < 2 {
            let which = if round == 0 { first } else { 2 - first };
            let snap = if which == 0 { p0 } else if which == 1 { p1 } else { p2 };
            assert!(d.seek(snap).is_ok());
            if which == 2 {
                assert!(d.decode_symbol(m1).ok() == Some(s1));
            }
            if which >= 1 {
                assert!(d.decode_symbol(m0).ok() == Some(s0));
            }
            assert!(Code::state(&d) == st0 && d.bulk().pos() == 1);
            round += 1;
        }
        // positions beyond the data are rejected
        assert!(d.seek((p2.0 + 1, p2.1)).is_err());
    }
    // consuming seekable decoder over the owned Vec (seek = truncate: only backwards)
    let mut d = enc.into_seekable_decoder();
    assert!(d.seek(p1).is_ok());
    assert!(d.decode_symbol(m0).ok() == Some(s0));
    assert!(Code::state(&d) == st0 && d.bulk().pos() == 1);
    vcover!(p2.0 == 2);
    vcover!(p2.0 == 1);
    core::mem::forget(d);
});

// reversed back end: data reversed in place, positions mirrored
harness!(ans_seek_reversed_u8_u16_p4, unwind = 8, |s| {
    let m0 = Cuts::<u8, 4> { c1: s.u8(), c2: s.u8() };
    let s0 = s.u8();
    s.assume(m0.valid() && s0 <= 2);
    let st = s.u16();
    let b0 = s.u8();
    s.assume(st >= 256);
    let mut v: Vec<u8> = Vec::with_capacity(8);
    v.push(b0);
    let mut enc = AnsCoder::<u8, u16, Vec<u8>>::from_raw_parts(v, st);
    let p0 = enc.pos();
    assert!(enc.encode_symbol(s0, m0).is_ok());
    let p1 = enc.pos();
    let mut data = enc.into_compressed().ok().unwrap();
    let n = data.len();
    data.reverse();
    let mut d = match AnsCoder::<u8, u16, _>::from_reversed_compressed(data) {
        Ok(d) => d,
        Err(_) => {
            assert!(false);
            return;
        }
    };
    assert!(d.decode_symbol(m0).ok() == Some(s0));
    // seek back to the snapshot taken after the symbol (mirrored position) and decode it again
    assert!(d.seek((n - p1.0, p1.1)).is_ok());
    assert!(d.decode_symbol(m0).ok() == Some(s0));
    assert!(Code::state(&d) == st);
    assert!(d.seek((n + 1, p1.1)).is_err());
    let _ = p0;
});

dispatch!(range_guard_inverted_n1_u8_u16, range_guard_inverted_n2_u8_u16, range_guard_inverted_n1_u16_u32, range_guard_inverted_n2_u16_u32, 
    range_guard_normal_u8_u16, range_guard_inverted_u8_u16, range_guard_normal_u16_u32, range_guard_inverted_u16_u32,
    range_guard_normal_u32_u64, range_guard_inverted_u32_u64, range_decoder_view_u8_u16,
    ans_seek_u8_u16_p4, ans_seek_reversed_u8_u16_p4
);
