//! C17 - word sources and sinks honour their read/write/bounds/position contracts.
use crate::common::*;
use crate::ksrc::Src;
use crate::{dispatch, harness, vcover};
use constriction::backends::*;
use constriction::{Pos, Queue, Seek, Stack};

harness!(revcursor_space_left, unwind = 7, |s| {
    let mut buf: [u8; 4] = s.arr_u8::<4>();
    let pos = s.usize();
    s.assume(pos <= 4);
    let cur = Cursor::new_at_pos_mut(&mut buf[..], pos).ok().unwrap();
    let mut rev = cur.into_reversed();
    let claimed = rev.space_left();
    let mut n = 0usize;
    while n < 5 {
        if rev.write(7).is_err() {
            break;
        }
        n += 1;
    }
    vcover!(n == 0);
    vcover!(n == 4);
    assert!(n == claimed);
});

dispatch!(revcursor_space_left);
