//! C17 - word sources and sinks honour their read/write/bounds/position contracts.
//! Every harness drives a real back end with a *symbolic operation script* against a tiny
//! reference model `(buffer, pos)`; CBMC's pointer checks cover the `get_unchecked` sites.
use crate::common::*;
use crate::ksrc::Src;
use crate::{dispatch, harness, vcover};
use constriction::backends::*;
use constriction::{Pos, Queue, Seek, Stack};

const N: usize = 4; // buffer words
const OPS: usize = 5; // script length

/// Reference model of a cursor over `len` words.
#[derive(Clone, Copy)]
struct RefCur {
    buf: [u8; N],
    len: usize,
    pos: usize,
}
impl RefCur {
    fn read_stack(&mut self) -> Option<u8> {
        if self.pos == 0 {
            None
        } else {
            self.pos -= 1;
            Some(self.buf[self.pos])
        }
    }
    fn read_queue(&mut self) -> Option<u8> {
        if self.pos >= self.len {
            None
        } else {
            self.pos += 1;
            Some(self.buf[self.pos - 1])
        }
    }
    fn write(&mut self, w: u8) -> bool {
        if self.pos >= self.len {
            false
        } else {
            self.buf[self.pos] = w;
            self.pos += 1;
            true
        }
    }
    fn seek(&mut self, p: usize) -> bool {
        if p > self.len {
            false
        } else {
            self.pos = p;
            true
        }
    }
}

// Cursor over a mutable slice: read (both semantics), write, seek, pos, remaining, space_left.
harness!(cursor_script_mut_slice, unwind = 7, |s| {
    let mut buf: [u8; N] = s.arr_u8::<N>();
    let len = s.usize();
    let pos = s.usize();
    s.assume(len <= N && pos <= len);
    let mut r = RefCur { buf, len, pos };
    let mut c = Cursor::new_at_pos_mut(&mut buf[..len], pos).ok().unwrap();
    let mut i = 0;
    let mut seen_none_q = false;
    while i < OPS {
        let op = s.u8();
        let arg = s.u8();
        match op % 5 {
            0 => {
                let got = <_ as ReadWords<u8, Stack>>::read(&mut c).ok().unwrap();
                assert!(got == r.read_stack());
            }
            1 => {
                let got = <_ as ReadWords<u8, Queue>>::read(&mut c).ok().unwrap();
                let want = r.read_queue();
                assert!(got == want);
                vcover!(got.is_none());
            }
            2 => {
                let ok = c.write(arg).is_ok();
                assert!(ok == r.write(arg));
                vcover!(!ok);
            }
            3 => {
                let p = arg as usize;
                let ok = c.seek(p).is_ok();
                assert!(ok == r.seek(p));
                if ok {
                    assert!(c.pos() == p);
                }
                vcover!(!ok);
            }
            _ => {
                // seek(pos()) is a no-op
                let p = c.pos();
                assert!(c.seek(p).is_ok());
                assert!(c.pos() == p);
            }
        }
        // bounds queries equal the number of operations that will actually succeed
        assert!(c.pos() == r.pos);
        assert!(<_ as BoundedReadWords<u8, Stack>>::remaining(&c) == r.pos);
        assert!(<_ as BoundedReadWords<u8, Queue>>::remaining(&c) == r.len - r.pos);
        assert!(c.space_left() == r.len - r.pos);
        assert!(<_ as BoundedReadWords<u8, Stack>>::is_exhausted(&c) == (r.pos == 0));
        assert!(<_ as BoundedReadWords<u8, Queue>>::is_exhausted(&c) == (r.pos == r.len));
        assert!(c.is_full() == (r.pos == r.len));
        assert!(<_ as ReadWords<u8, Stack>>::maybe_exhausted(&c) == (r.pos == 0));
        assert!(<_ as ReadWords<u8, Queue>>::maybe_exhausted(&c) == (r.pos == r.len));
        i += 1;
    }
    // buffer contents agree with the reference
    let (b, p) = c.into_buf_and_pos();
    assert!(p == r.pos);
    let mut j = 0;
    while j < len {
        assert!(b[j] == r.buf[j]);
        j += 1;
    }
});

// After the first end-of-data every further read is end-of-data (no intervening write/seek).
harness!(cursor_none_is_sticky, unwind = 7, |s| {
    let buf: [u8; N] = s.arr_u8::<N>();
    let len = s.usize();
    let pos = s.usize();
    s.assume(len <= N && pos <= len);
    let mut c = Cursor::new_at_pos(&buf[..len], pos).ok().unwrap();
    let mut d = Cursor::new_at_pos(&buf[..len], pos).ok().unwrap();
    let claimed_q = <_ as BoundedReadWords<u8, Queue>>::remaining(&c);
    let claimed_s = <_ as BoundedReadWords<u8, Stack>>::remaining(&d);
    let mut nq = 0;
    let mut i = 0;
    let mut ended = false;
    while i < N + 2 {
        match <_ as ReadWords<u8, Queue>>::read(&mut c).ok().unwrap() {
            Some(w) => {
                assert!(!ended);
                assert!(w == buf[pos + nq]);
                nq += 1;
            }
            None => ended = true,
        }
        i += 1;
    }
    assert!(ended && nq == claimed_q);
    let mut ns = 0;
    let mut i = 0;
    let mut ended = false;
    while i < N + 2 {
        match <_ as ReadWords<u8, Stack>>::read(&mut d).ok().unwrap() {
            Some(w) => {
                assert!(!ended);
                assert!(w == buf[pos - 1 - ns]);
                ns += 1;
            }
            None => ended = true,
        }
        i += 1;
    }
    assert!(ended && ns == claimed_s);
    vcover!(nq == N);
    vcover!(ns == N);
});

// Constructors: position checks and the documented start positions.
harness!(cursor_constructors, unwind = 6, |s| {
    let mut buf: [u8; N] = s.arr_u8::<N>();
    let len = s.usize();
    let pos = s.usize();
    s.assume(len <= N);
    let r1 = Cursor::new_at_pos(&buf[..len], pos);
    assert!(r1.is_ok() == (pos <= len));
    if let Ok(c) = r1 {
        assert!(c.pos() == pos);
    }
    {
        let r2 = Cursor::new_at_pos_mut(&mut buf[..len], pos);
        assert!(r2.is_ok() == (pos <= len));
    }
    let c = Cursor::new_at_write_beginning(&buf[..len]);
    assert!(c.pos() == 0);
    let c = Cursor::new_at_write_end(&buf[..len]);
    assert!(c.pos() == len);
    let c = Cursor::new_at_write_end_mut(&mut buf[..len]);
    assert!(c.pos() == len);
    // stack semantics start at the end, queue semantics at the beginning
    let v = &buf[..len];
    let st = <&[u8] as IntoReadWords<u8, Stack>>::into_read_words(v);
    assert!(st.pos() == len);
    let qu = <&[u8] as IntoReadWords<u8, Queue>>::into_read_words(v);
    assert!(qu.pos() == 0);
    vcover!(pos > len);
    vcover!(pos == len);
});

// Reversing a cursor in place is observationally a no-op for reads and writes; positions mirror.
harness!(reversed_equiv_script, unwind = 7, |s| {
    let init: [u8; N] = s.arr_u8::<N>();
    let len = s.usize();
    let pos = s.usize();
    s.assume(len <= N && pos <= len);
    let mut a_buf = init;
    let mut b_buf = init;
    let mut a = Cursor::new_at_pos_mut(&mut a_buf[..len], pos).ok().unwrap();
    let mut b = Cursor::new_at_pos_mut(&mut b_buf[..len], pos).ok().unwrap().into_reversed();
    let mut i = 0;
    while i < OPS {
        let op = s.u8();
        let arg = s.u8();
        match op % 4 {
            0 => {
                let x = <_ as ReadWords<u8, Stack>>::read(&mut a).ok().unwrap();
                let y = <_ as ReadWords<u8, Stack>>::read(&mut b).ok().unwrap();
                assert!(x == y);
            }
            1 => {
                let x = <_ as ReadWords<u8, Queue>>::read(&mut a).ok().unwrap();
                let y = <_ as ReadWords<u8, Queue>>::read(&mut b).ok().unwrap();
                assert!(x == y);
            }
            2 => {
                let x = a.write(arg).is_ok();
                let y = b.write(arg).is_ok();
                assert!(x == y);
                vcover!(!x);
            }
            _ => {
                // positions are passed through unconverted: mirrored coordinates
                let p = arg as usize;
                let x = a.seek(p).is_ok();
                let y = if p <= len { b.seek(len - p).is_ok() } else { b.seek(p).is_ok() };
                assert!(x == y);
            }
        }
        assert!(<_ as BoundedReadWords<u8, Stack>>::remaining(&a) == <_ as BoundedReadWords<u8, Stack>>::remaining(&b));
        assert!(<_ as BoundedReadWords<u8, Queue>>::remaining(&a) == <_ as BoundedReadWords<u8, Queue>>::remaining(&b));
        assert!(a.space_left() == b.space_left());
        assert!(a.pos() + b.pos() == len);
        i += 1;
    }
    // reversing back yields the very same cursor
    let b2 = b.into_reversed();
    let (bb, bp) = b2.into_buf_and_pos();
    let (ab, ap) = a.into_buf_and_pos();
    assert!(ap == bp);
    let mut j = 0;
    while j < len {
        assert!(ab[j] == bb[j]);
        j += 1;
    }
});

// `Reverse<Cursor>`: number of successful writes equals `space_left()` (the defect fixed in 0a53fa7).
harness!(revcursor_space_left, unwind = 7, |s| {
    let mut buf: [u8; N] = s.arr_u8::<N>();
    let pos = s.usize();
    s.assume(pos <= N);
    let cur = Cursor::new_at_pos_mut(&mut buf[..], pos).ok().unwrap();
    let mut rev = cur.into_reversed();
    let claimed = rev.space_left();
    let mut n = 0usize;
    while n < N + 1 {
        if rev.write(7).is_err() {
            break;
        }
        n += 1;
    }
    vcover!(n == 0);
    vcover!(n == N);
    assert!(n == claimed);
    assert!(rev.is_full());
});

// Vec<u8>: stack semantics, seek = truncate.
harness!(vec_stack_script, unwind = 7, |s| {
    let mut v: Vec<u8> = Vec::new();
    let mut r = [0u8; OPS + 1];
    let mut n = 0usize;
    let mut i = 0;
    while i < OPS {
        let op = s.u8();
        let arg = s.u8();
        match op % 3 {
            0 => {
                assert!(v.write(arg).is_ok());
                r[n] = arg;
                n += 1;
            }
            1 => {
                let got = <Vec<u8> as ReadWords<u8, Stack>>::read(&mut v).ok().unwrap();
                if n == 0 {
                    assert!(got.is_none());
                } else {
                    n -= 1;
                    assert!(got == Some(r[n]));
                }
            }
            _ => {
                let p = arg as usize;
                let ok = v.seek(p).is_ok();
                assert!(ok == (p <= n));
                if ok {
                    n = p;
                }
            }
        }
        assert!(v.pos() == n);
        assert!(<Vec<u8> as BoundedReadWords<u8, Stack>>::remaining(&v) == n);
        assert!(<Vec<u8> as ReadWords<u8, Stack>>::maybe_exhausted(&v) == (n == 0));
        assert!(!v.maybe_full());
        i += 1;
    }
    vcover!(n == OPS);
    core::mem::forget(v);
});

// Iterator adapter (`InfallibleIteratorReadWords::new` demands `Result` items, so it cannot be built over plain
// words through the public API; only the fallible adapter is exercised): reads preserve order, end-of-data is sticky, `remaining` is exact.
harness!(iter_adapters, unwind = 7, |s| {
    let data: [u8; N] = s.arr_u8::<N>();
    let len = s.usize();
    s.assume(len <= N);
    let fail_at = s.usize();
    let mut k = 0usize;
    let it = data[..len].iter().map(|&w| {
        k += 1;
        if k - 1 == fail_at {
            Err(())
        } else {
            Ok(w)
        }
    });
    let mut f = FallibleIteratorReadWords::new(it);
    let mut i = 0;
    while i < N + 2 {
        let got = <_ as ReadWords<u8, Stack>>::read(&mut f);
        if i < len {
            if i == fail_at {
                assert!(got.is_err());
            } else {
                assert!(got == Ok(Some(data[i])));
            }
        } else {
            assert!(got == Ok(None));
        }
        i += 1;
    }
    vcover!(fail_at < len);
    vcover!(len == N);
});

// Callback writers forward every word, in order; the fallible one forwards the callback's error.
harness!(callback_writers, unwind = 7, |s| {
    let data: [u8; N] = s.arr_u8::<N>();
    let fail_at = s.usize();
    let mut seen = [0u8; N];
    let mut n = 0usize;
    {
        let mut w = InfallibleCallbackWriteWords::new(|x: u8| {
            seen[n] = x;
            n += 1;
        });
        let mut i = 0;
        while i < N {
            assert!(w.write(data[i]).is_ok());
            i += 1;
        }
    }
    assert!(n == N);
    let mut j = 0;
    while j < N {
        assert!(seen[j] == data[j]);
        j += 1;
    }
    let mut m = 0usize;
    let mut w = FallibleCallbackWriteWords::new(|x: u8| {
        if m == fail_at {
            Err(())
        } else {
            m += 1;
            Ok(())
        }
    });
    let mut i = 0;
    while i < N {
        let r = w.write(data[i]);
        assert!(r.is_ok() == (i < fail_at));
        i += 1;
    }
    vcover!(fail_at < N);
});



// ------------------------------------------------------------------ C20: buffers manipulated through accessors
// `Cursor::buf_mut()` hands out `&mut Buf`; with a `Vec` buffer safe code can change its length.
// Stack reads use `get_unchecked(pos - 1)`: sound only while `pos <= len`.
pub mod c20_cursor_buf_mut {
    use super::*;
    pub fn run<S: Src>(s: &mut S, restrict: bool) {
        let len = s.usize();
        let pos = s.usize();
        let newlen = s.usize();
        s.assume(len <= 3 && pos <= len && newlen <= 3);
        if restrict {
            // complement of the recorded known finding: the buffer is not shrunk below the position
            s.assume(newlen >= pos);
        }
        let mut v: Vec<u8> = Vec::with_capacity(4);
        let mut i = 0;
        while i < len {
            v.push(s.u8());
            i += 1;
        }
        let mut c = Cursor::new_at_pos(v, pos).ok().unwrap();
        {
            let b = c.buf_mut();
            if newlen <= b.len() {
                b.truncate(newlen);
            } else {
                while b.len() < newlen {
                    b.push(0);
                }
            }
        }
        // any of these may return anything or panic, but must not read out of bounds
        let _ = <_ as ReadWords<u8, Stack>>::read(&mut c);
        let _ = <_ as ReadWords<u8, Queue>>::read(&mut c);
        let _ = c.write(1);
        let (b, _) = c.into_buf_and_pos();
        core::mem::forget(b);
    }
}
harness!(c20_cursor_buf_mut_restricted, unwind = 6, |s| {
    c20_cursor_buf_mut::run(s, true);
});
harness!(c20_cursor_buf_mut_unrestricted, unwind = 6, |s| {
    c20_cursor_buf_mut::run(s, false);
});

dispatch!(
    cursor_script_mut_slice,
    cursor_none_is_sticky,
    cursor_constructors,
    reversed_equiv_script,
    revcursor_space_left,
    vec_stack_script,
    iter_adapters,
    callback_writers,
    c20_cursor_buf_mut_restricted,
    c20_cursor_buf_mut_unrestricted
);
