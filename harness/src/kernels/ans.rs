//! Engine-L kernels for the ANS stack coder (C01, C04, C09, C10, C12, C18).
//! Verdict convention: 0 = obligation held on this input, 1 = input outside the stated
//! precondition, >= 2 = obligation violated (code identifies the failed clause).
use crate::common::*;
use constriction::stream::{stack::AnsCoder, Decode, Encode};
use constriction::backends::{ReadWords, WriteWords};

/// C01 `c01_step`: from any `Inv_ans` raw state, encode then decode restores everything.
macro_rules! k_c01_step {
    ($name:ident, $W:ty, $S:ty, $Pr:ty, $P:expr) => {
        #[no_mangle]
        pub extern "C" fn $name(state: $S, w0: $W, len: u32, c1: $Pr, c2: $Pr, sym: u8) -> u32 {
            if len > 1 {
                return 1;
            }
            if len == 1 && state < ((1 as $S) << (<$S>::BITS - <$W>::BITS)) {
                return 1;
            }
            let m = Cuts::<$Pr, $P> { c1, c2 };
            if !m.valid() || sym > 2 {
                return 1;
            }
            let mut coder = AnsCoder::<$W, $S, ArrStack<$W, 3>>::from_raw_parts(
                ArrStack { words: [w0, 0, 0], len: len as usize },
                state,
            );
            if coder.encode_symbol(sym, m).is_err() {
                return 2;
            }
            // proof structure: invariant holds between the calls
            {
                let s = Code::state(&coder);
                if coder.bulk().len > 0 && s < ((1 as $S) << (<$S>::BITS - <$W>::BITS)) {
                    return 8;
                }
                if coder.bulk().len > len as usize + 1 {
                    return 9;
                }
            }
            let d = match coder.decode_symbol(m) {
                Ok(d) => d,
                Err(_) => return 3,
            };
            if d != sym {
                return 4;
            }
            let (b2, s2) = coder.into_raw_parts();
            if s2 != state {
                return 5;
            }
            if b2.len != len as usize {
                return 6;
            }
            if len == 1 && b2.words[0] != w0 {
                return 7;
            }
            0
        }
    };
}
use constriction::stream::Code;


k_c01_step!(k_c01_step_u8_u16_p4, u8, u16, u8, 4);
k_c01_step!(k_c01_step_u8_u16_p7, u8, u16, u8, 7);
k_c01_step!(k_c01_step_u8_u16_p8, u8, u16, u8, 8);

k_c01_step!(k_c01_step_u8_u32_p8, u8, u32, u8, 8);
k_c01_step!(k_c01_step_u8_u64_p8, u8, u64, u8, 8);
k_c01_step!(k_c01_step_u16_u32_p12, u16, u32, u16, 12);
k_c01_step!(k_c01_step_u16_u32_p16, u16, u32, u16, 16);
k_c01_step!(k_c01_step_u16_u64_p12, u16, u64, u16, 12);
k_c01_step!(k_c01_step_u16_u64_p16, u16, u64, u16, 16);
k_c01_step!(k_c01_step_u32_u64_p16, u32, u64, u16, 16);
k_c01_step!(k_c01_step_u32_u64_p24, u32, u64, u32, 24);
k_c01_step!(k_c01_step_u32_u64_p32, u32, u64, u32, 32);

/// C04 `c04_step`: from any `Inv_ans` raw state, decode then encode restores everything.
macro_rules! k_c04_step {
    ($name:ident, $W:ty, $S:ty, $Pr:ty, $P:expr) => {
        #[no_mangle]
        pub extern "C" fn $name(state: $S, w0: $W, len: u32, c1: $Pr, c2: $Pr) -> u32 {
            if len > 1 {
                return 1;
            }
            if len == 1 && state < ((1 as $S) << (<$S>::BITS - <$W>::BITS)) {
                return 1;
            }
            let m = Cuts::<$Pr, $P> { c1, c2 };
            if !m.valid() {
                return 1;
            }
            let mut coder = AnsCoder::<$W, $S, ArrStack<$W, 3>>::from_raw_parts(
                ArrStack { words: [w0, 0, 0], len: len as usize },
                state,
            );
            let sym = match coder.decode_symbol(m) {
                Ok(d) => d,
                Err(_) => return 3,
            };
            if sym > 2 {
                return 10;
            }
            {
                let s = Code::state(&coder);
                if coder.bulk().len > 0 && s < ((1 as $S) << (<$S>::BITS - <$W>::BITS)) {
                    return 8;
                }
            }
            if coder.encode_symbol(sym, m).is_err() {
                return 2;
            }
            let (b2, s2) = coder.into_raw_parts();
            if s2 != state {
                return 5;
            }
            if b2.len != len as usize {
                return 6;
            }
            if len == 1 && b2.words[0] != w0 {
                return 7;
            }
            0
        }
    };
}

k_c04_step!(k_c04_step_u8_u16_p4, u8, u16, u8, 4);
k_c04_step!(k_c04_step_u8_u16_p7, u8, u16, u8, 7);
k_c04_step!(k_c04_step_u8_u16_p8, u8, u16, u8, 8);

k_c04_step!(k_c04_step_u8_u32_p8, u8, u32, u8, 8);
k_c04_step!(k_c04_step_u8_u64_p8, u8, u64, u8, 8);
k_c04_step!(k_c04_step_u16_u32_p12, u16, u32, u16, 12);
k_c04_step!(k_c04_step_u16_u32_p16, u16, u32, u16, 16);
k_c04_step!(k_c04_step_u16_u64_p12, u16, u64, u16, 12);
k_c04_step!(k_c04_step_u16_u64_p16, u16, u64, u16, 16);
k_c04_step!(k_c04_step_u32_u64_p16, u32, u64, u16, 16);
k_c04_step!(k_c04_step_u32_u64_p24, u32, u64, u32, 24);
k_c04_step!(k_c04_step_u32_u64_p32, u32, u64, u32, 32);

/// C10 `c10_ans`: decode from *any* raw parts (invariant not assumed) is total; symbol in support.
macro_rules! k_c10_ans {
    ($name:ident, $W:ty, $S:ty, $Pr:ty, $P:expr) => {
        #[no_mangle]
        pub extern "C" fn $name(state: $S, w0: $W, len: u32, c1: $Pr, c2: $Pr) -> u32 {
            if len > 1 {
                return 1;
            }
            let m = Cuts::<$Pr, $P> { c1, c2 };
            if !m.valid() {
                return 1;
            }
            let mut coder = AnsCoder::<$W, $S, ArrStack<$W, 3>>::from_raw_parts(
                ArrStack { words: [w0, 0, 0], len: len as usize },
                state,
            );
            let sym = match coder.decode_symbol(m) {
                Ok(d) => d,
                Err(_) => return 3,
            };
            if sym > 2 {
                return 10;
            }
            // a second decode from whatever state resulted is total as well
            let sym2 = match coder.decode_symbol(m) {
                Ok(d) => d,
                Err(_) => return 3,
            };
            if sym2 > 2 {
                return 11;
            }
            0
        }
    };
}
k_c10_ans!(k_c10_ans_u8_u16_p4, u8, u16, u8, 4);
k_c10_ans!(k_c10_ans_u8_u16_p8, u8, u16, u8, 8);
k_c10_ans!(k_c10_ans_u8_u32_p8, u8, u32, u8, 8);
k_c10_ans!(k_c10_ans_u16_u32_p12, u16, u32, u16, 12);
k_c10_ans!(k_c10_ans_u16_u32_p16, u16, u32, u16, 16);
k_c10_ans!(k_c10_ans_u16_u64_p16, u16, u64, u16, 16);
k_c10_ans!(k_c10_ans_u32_u64_p24, u32, u64, u32, 24);
k_c10_ans!(k_c10_ans_u32_u64_p32, u32, u64, u32, 32);

/// C09 `c09_ans_unchanged`: an impossible symbol, or a failing sink at any point, leaves the
/// coder usable: observational oracle (previous symbol still decodes, one more round trip works).
macro_rules! k_c09_ans {
    ($name:ident, $W:ty, $S:ty, $Pr:ty, $P:expr) => {
        #[no_mangle]
        pub extern "C" fn $name(
            state: $S,
            w0: $W,
            len: u32,
            c1: $Pr,
            c2: $Pr,
            sym0: u8,
            bad: u8,
            fail_at: u32,
            sym1: u8,
        ) -> u32 {
            if len > 1 || fail_at > 3 {
                return 1;
            }
            if len == 1 && state < ((1 as $S) << (<$S>::BITS - <$W>::BITS)) {
                return 1;
            }
            let m = Cuts::<$Pr, $P> { c1, c2 };
            if !m.valid() || sym0 > 2 || sym1 > 2 {
                return 1;
            }
            let sink = FailAt {
                inner: ArrStack { words: [w0, 0, 0, 0], len: len as usize },
                writes: 0,
                fail_at: fail_at as usize,
            };
            let mut coder = AnsCoder::<$W, $S, FailAt<$W, 4>>::from_raw_parts(sink, state);
            // history: one earlier symbol (may itself hit the write fault: then nothing to check)
            if coder.encode_symbol(sym0, m).is_err() {
                return 1;
            }
            let st1 = Code::state(&coder);
            let bulk1 = coder.bulk().inner;
            // the failing call: either an impossible symbol or a (possibly) failing write
            let r = coder.encode_symbol(bad, m);
            if bad > 2 {
                match r {
                    Err(constriction::CoderError::Frontend(_)) => {}
                    _ => return 2, // must be the impossible-symbol error
                }
            } else if r.is_ok() {
                return 1; // ordinary successful encode: C01's business
            }
            // sufficient condition (proof structure, reported separately): raw parts unchanged
            let unchanged = Code::state(&coder) == st1
                && coder.bulk().inner.len == bulk1.len
                && coder.bulk().inner.words[0] == bulk1.words[0]
                && coder.bulk().inner.words[1] == bulk1.words[1];
            // observational oracle: lift the fault, encode one more symbol, pop both
            let (mut sink2, st2) = coder.into_raw_parts();
            sink2.fail_at = usize::MAX;
            let mut coder = AnsCoder::<$W, $S, FailAt<$W, 4>>::from_raw_parts(sink2, st2);
            if coder.encode_symbol(sym1, m).is_err() {
                return 3;
            }
            match coder.decode_symbol(m) {
                Ok(d) if d == sym1 => {}
                _ => return 4,
            }
            match coder.decode_symbol(m) {
                Ok(d) if d == sym0 => {}
                _ => return 5,
            }
            let (b3, s3) = coder.into_raw_parts();
            if s3 != state || b3.inner.len != len as usize || (len == 1 && b3.inner.words[0] != w0) {
                return 6;
            }
            if !unchanged {
                return 20; // sufficient condition broken but observation fine: not a violation by itself
            }
            0
        }
    };
}
/// C09 `c09_ans_step`: ONE failing `encode_symbol` (impossible symbol, or a write fault of the sink)
/// from ANY invariant state leaves the raw parts (state word, bulk length and contents) exactly as they
/// were -- the sufficient condition under which every later observation equals the one without the
/// failed call (the observational form is `k_c09_ans`).
macro_rules! k_c09_ans_step {
    ($name:ident, $W:ty, $S:ty, $Pr:ty, $P:expr) => {
        #[no_mangle]
        pub extern "C" fn $name(state: $S, w0: $W, len: u32, c1: $Pr, c2: $Pr, bad: u8, fail_at: u32) -> u32 {
            if len > 1 || fail_at > 1 {
                return 1;
            }
            if len == 1 && state < ((1 as $S) << (<$S>::BITS - <$W>::BITS)) {
                return 1;
            }
            let m = Cuts::<$Pr, $P> { c1, c2 };
            if !m.valid() {
                return 1;
            }
            let sink = FailAt { inner: ArrStack { words: [w0, 0, 0, 0], len: len as usize }, writes: 0, fail_at: fail_at as usize };
            let mut coder = AnsCoder::<$W, $S, FailAt<$W, 4>>::from_raw_parts(sink, state);
            let r = coder.encode_symbol(bad, m);
            if bad > 2 {
                match r {
                    Err(constriction::CoderError::Frontend(_)) => {}
                    _ => return 2,
                }
            } else {
                match r {
                    Ok(()) => return 1, // ordinary successful encode: C01's business
                    Err(constriction::CoderError::Backend(_)) => {}
                    Err(constriction::CoderError::Frontend(_)) => return 3, // encodable symbol reported impossible
                }
            }
            let (b, st) = coder.into_raw_parts();
            if st != state {
                return 4;
            }
            if b.inner.len != len as usize || b.inner.words[0] != w0 || b.inner.words[1] != 0 {
                return 5;
            }
            0
        }
    };
}
k_c09_ans_step!(k_c09_ans_step_u8_u16_p4, u8, u16, u8, 4);
k_c09_ans_step!(k_c09_ans_step_u8_u16_p8, u8, u16, u8, 8);
k_c09_ans_step!(k_c09_ans_step_u8_u32_p8, u8, u32, u8, 8);
k_c09_ans_step!(k_c09_ans_step_u16_u32_p12, u16, u32, u16, 12);
k_c09_ans_step!(k_c09_ans_step_u32_u64_p24, u32, u64, u32, 24);
k_c09_ans_step!(k_c09_ans_step_u32_u64_p32, u32, u64, u32, 32);

k_c09_ans!(k_c09_ans_u8_u16_p4, u8, u16, u8, 4);
k_c09_ans!(k_c09_ans_u8_u16_p8, u8, u16, u8, 8);
k_c09_ans!(k_c09_ans_u16_u32_p12, u16, u32, u16, 12);
k_c09_ans!(k_c09_ans_u32_u64_p24, u32, u64, u32, 24);

/// C01 `c01_batch_eq_loop`: every batch form leaves the coder exactly where the per-symbol loop leaves
/// it and returns the same result -- also when the batch aborts in the middle (impossible symbol, model
/// error of the fallible-iterator form, failing sink).
macro_rules! k_c01_batch {
    ($name:ident, $W:ty, $S:ty, $Pr:ty, $P:expr) => {
        #[no_mangle]
        pub extern "C" fn $name(state: $S, w0: $W, len: u32, cuts: &[$Pr; 4], syms: &[u8; 2], form: u32, err_at: u32, fail_at: u32) -> u32 {
            if len > 1 || form > 4 || fail_at > 3 {
                return 1;
            }
            if len == 1 && state < ((1 as $S) << (<$S>::BITS - <$W>::BITS)) {
                return 1;
            }
            let m0 = Cuts::<$Pr, $P> { c1: cuts[0], c2: cuts[1] };
            let m1 = Cuts::<$Pr, $P> { c1: cuts[2], c2: cuts[3] };
            // symbols 0..=2 are encodable, 3 is outside the support (aborts the batch)
            if !m0.valid() || !m1.valid() || syms[0] > 3 || syms[1] > 3 {
                return 1;
            }
            let sink = FailAt { inner: ArrStack { words: [w0, 0, 0, 0], len: len as usize }, writes: 0, fail_at: fail_at as usize };
            let mut a = AnsCoder::<$W, $S, FailAt<$W, 4>>::from_raw_parts(sink, state);
            let mut b = AnsCoder::<$W, $S, FailAt<$W, 4>>::from_raw_parts(sink, state);
            // reference: the explicit per-symbol loop (in the order the batch form is documented to use)
            let items = [(syms[0], m0), (syms[1], m1)];
            let reversed = form == 1 || form == 3;
            let mut ok_b = true;
            let mut i = 0;
            while i < 2 {
                let j = if reversed { 1 - i } else { i };
                if (form == 2 || form == 3) && err_at as usize == j {
                    ok_b = false; // the fallible iterator yields Err at this item
                    break;
                }
                let (sy, mo) = if form == 4 { (items[j].0, m0) } else { items[j] };
                if b.encode_symbol(sy, mo).is_err() {
                    ok_b = false;
                    break;
                }
                i += 1;
            }
            let ok_a = match form {
                0 => a.encode_symbols(items.iter().cloned()).is_ok(),
                1 => a.encode_symbols_reverse(items.iter().cloned()).is_ok(),
                2 => a
                    .try_encode_symbols(items.iter().cloned().enumerate().map(|(k, x)| if k == err_at as usize { Err(()) } else { Ok(x) }))
                    .is_ok(),
                3 => a
                    .try_encode_symbols_reverse(items.iter().cloned().enumerate().map(|(k, x)| if k == err_at as usize { Err(()) } else { Ok(x) }))
                    .is_ok(),
                _ => a.encode_iid_symbols(items.iter().map(|x| x.0), m0).is_ok(),
            };
            if ok_a != ok_b {
                return 2;
            }
            let (ba, sa) = a.into_raw_parts();
            let (bb, sb) = b.into_raw_parts();
            if sa != sb {
                return 3;
            }
            if ba.inner.len != bb.inner.len {
                return 4;
            }
            let mut i = 0;
            while i < 4 {
                if i < ba.inner.len && ba.inner.words[i] != bb.inner.words[i] {
                    return 5;
                }
                i += 1;
            }
            0
        }
    };
}
k_c01_batch!(k_c01_batch_u8_u16_p4, u8, u16, u8, 4);
k_c01_batch!(k_c01_batch_u8_u16_p8, u8, u16, u8, 8);
k_c01_batch!(k_c01_batch_u16_u32_p12, u16, u32, u16, 12);
k_c01_batch!(k_c01_batch_u32_u64_p24, u32, u64, u32, 24);

/// C01 decode-side batch forms: `decode_symbols`, `try_decode_symbols`, `decode_iid_symbols` yield what
/// the per-symbol loop yields and leave the same raw parts.
macro_rules! k_c01_batch_dec {
    ($name:ident, $W:ty, $S:ty, $Pr:ty, $P:expr) => {
        #[no_mangle]
        pub extern "C" fn $name(state: $S, w0: $W, w1: $W, len: u32, cuts: &[$Pr; 4], form: u32) -> u32 {
            if len > 2 || form > 2 {
                return 1;
            }
            let m0 = Cuts::<$Pr, $P> { c1: cuts[0], c2: cuts[1] };
            let m1 = Cuts::<$Pr, $P> { c1: cuts[2], c2: cuts[3] };
            if !m0.valid() || !m1.valid() {
                return 1;
            }
            let bulk = ArrStack::<$W, 4> { words: [w0, w1, 0, 0], len: len as usize };
            let mut a = AnsCoder::<$W, $S, ArrStack<$W, 4>>::from_raw_parts(bulk, state);
            let mut b = AnsCoder::<$W, $S, ArrStack<$W, 4>>::from_raw_parts(bulk, state);
            let ms = [m0, if form == 2 { m0 } else { m1 }];
            let r0 = match b.decode_symbol(ms[0]) {
                Ok(x) => x,
                Err(_) => return 3,
            };
            let r1 = match b.decode_symbol(ms[1]) {
                Ok(x) => x,
                Err(_) => return 3,
            };
            let mut got = [0u8; 2];
            let mut n = 0usize;
            match form {
                0 => {
                    for r in a.decode_symbols(ms.iter().cloned()) {
                        match r {
                            Ok(x) => {
                                if n < 2 {
                                    got[n] = x;
                                }
                                n += 1;
                            }
                            Err(_) => return 3,
                        }
                    }
                }
                1 => {
                    for r in a.try_decode_symbols(ms.iter().cloned().map(Result::<_, ()>::Ok)) {
                        match r {
                            Ok(x) => {
                                if n < 2 {
                                    got[n] = x;
                                }
                                n += 1;
                            }
                            Err(_) => return 3,
                        }
                    }
                }
                _ => {
                    for r in a.decode_iid_symbols(2, m0) {
                        match r {
                            Ok(x) => {
                                if n < 2 {
                                    got[n] = x;
                                }
                                n += 1;
                            }
                            Err(_) => return 3,
                        }
                    }
                }
            }
            if n != 2 || got[0] != r0 || got[1] != r1 {
                return 4;
            }
            let (ba, sa) = a.into_raw_parts();
            let (bb, sb) = b.into_raw_parts();
            if sa != sb || ba.len != bb.len {
                return 5;
            }
            0
        }
    };
}
k_c01_batch_dec!(k_c01_batch_dec_u8_u16_p4, u8, u16, u8, 4);
k_c01_batch_dec!(k_c01_batch_dec_u16_u32_p12, u16, u32, u16, 12);
k_c01_batch_dec!(k_c01_batch_dec_u32_u64_p24, u32, u64, u32, 24);
