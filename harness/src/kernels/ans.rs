//! Engine-L kernels for the ANS stack coder (C01, C04, C09, C10, C12, C18).
//! Verdict convention: 0 = obligation held on this input, 1 = input outside the stated
//! precondition, >= 2 = obligation violated (code identifies the failed clause).
use crate::common::*;
use constriction::stream::{stack::AnsCoder, Decode, Encode};

/// C01 `c01_step`: from any `Inv_ans` raw state, encode then decode restores everything.
macro_rules! k_c01_step {
    ($name:ident, $W:ty, $S:ty, $Pr:ty, $P:expr) => {
        #[no_mangle]
        pub extern "C" fn $name(state: $S, w0: $W, len: u32, c1: $Pr, c2: $Pr, sym: u8) -> u32 {
            if len > 1 {
                return 1;
            }
            if len == 1 && state < ((1 as $S) << (<$S>::BITS - <$W>::BITS)) {
                return 1;
            }
            let m = Cuts::<$Pr, $P> { c1, c2 };
            if !m.valid() || sym > 2 {
                return 1;
            }
            let mut coder = AnsCoder::<$W, $S, ArrStack<$W, 3>>::from_raw_parts(
                ArrStack { words: [w0, 0, 0], len: len as usize },
                state,
            );
            if coder.encode_symbol(sym, m).is_err() {
                return 2;
            }
            // proof structure: invariant holds between the calls
            {
                let s = Code::state(&coder);
                if coder.bulk().len > 0 && s < ((1 as $S) << (<$S>::BITS - <$W>::BITS)) {
                    return 8;
                }
                if coder.bulk().len > len as usize + 1 {
                    return 9;
                }
            }
            let d = match coder.decode_symbol(m) {
                Ok(d) => d,
                Err(_) => return 3,
            };
            if d != sym {
                return 4;
            }
            let (b2, s2) = coder.into_raw_parts();
            if s2 != state {
                return 5;
            }
            if b2.len != len as usize {
                return 6;
            }
            if len == 1 && b2.words[0] != w0 {
                return 7;
            }
            0
        }
    };
}
use constriction::stream::Code;


k_c01_step!(k_c01_step_u8_u16_p4, u8, u16, u8, 4);
k_c01_step!(k_c01_step_u8_u16_p7, u8, u16, u8, 7);
k_c01_step!(k_c01_step_u8_u16_p8, u8, u16, u8, 8);

k_c01_step!(k_c01_step_u8_u32_p8, u8, u32, u8, 8);
k_c01_step!(k_c01_step_u8_u64_p8, u8, u64, u8, 8);
k_c01_step!(k_c01_step_u16_u32_p12, u16, u32, u16, 12);
k_c01_step!(k_c01_step_u16_u32_p16, u16, u32, u16, 16);
k_c01_step!(k_c01_step_u16_u64_p12, u16, u64, u16, 12);
k_c01_step!(k_c01_step_u16_u64_p16, u16, u64, u16, 16);
k_c01_step!(k_c01_step_u32_u64_p16, u32, u64, u16, 16);
k_c01_step!(k_c01_step_u32_u64_p24, u32, u64, u32, 24);
k_c01_step!(k_c01_step_u32_u64_p32, u32, u64, u32, 32);

/// C04 `c04_step`: from any `Inv_ans` raw state, decode then encode restores everything.
macro_rules! k_c04_step {
    ($name:ident, $W:ty, $S:ty, $Pr:ty, $P:expr) => {
        #[no_mangle]
        pub extern "C" fn $name(state: $S, w0: $W, len: u32, c1: $Pr, c2: $Pr) -> u32 {
            if len > 1 {
                return 1;
            }
            if len == 1 && state < ((1 as $S) << (<$S>::BITS - <$W>::BITS)) {
                return 1;
            }
            let m = Cuts::<$Pr, $P> { c1, c2 };
            if !m.valid() {
                return 1;
            }
            let mut coder = AnsCoder::<$W, $S, ArrStack<$W, 3>>::from_raw_parts(
                ArrStack { words: [w0, 0, 0], len: len as usize },
                state,
            );
            let sym = match coder.decode_symbol(m) {
                Ok(d) => d,
                Err(_) => return 3,
            };
            if sym > 2 {
                return 10;
            }
            {
                let s = Code::state(&coder);
                if coder.bulk().len > 0 && s < ((1 as $S) << (<$S>::BITS - <$W>::BITS)) {
                    return 8;
                }
            }
            if coder.encode_symbol(sym, m).is_err() {
                return 2;
            }
            let (b2, s2) = coder.into_raw_parts();
            if s2 != state {
                return 5;
            }
            if b2.len != len as usize {
                return 6;
            }
            if len == 1 && b2.words[0] != w0 {
                return 7;
            }
            0
        }
    };
}

k_c04_step!(k_c04_step_u8_u16_p4, u8, u16, u8, 4);
k_c04_step!(k_c04_step_u8_u16_p7, u8, u16, u8, 7);
k_c04_step!(k_c04_step_u8_u16_p8, u8, u16, u8, 8);

k_c04_step!(k_c04_step_u8_u32_p8, u8, u32, u8, 8);
k_c04_step!(k_c04_step_u8_u64_p8, u8, u64, u8, 8);
k_c04_step!(k_c04_step_u16_u32_p12, u16, u32, u16, 12);
k_c04_step!(k_c04_step_u16_u32_p16, u16, u32, u16, 16);
k_c04_step!(k_c04_step_u16_u64_p12, u16, u64, u16, 12);
k_c04_step!(k_c04_step_u16_u64_p16, u16, u64, u16, 16);
k_c04_step!(k_c04_step_u32_u64_p16, u32, u64, u16, 16);
k_c04_step!(k_c04_step_u32_u64_p24, u32, u64, u32, 24);
k_c04_step!(k_c04_step_u32_u64_p32, u32, u64, u32, 32);

/// C10 `c10_ans`: decode from *any* raw parts (invariant not assumed) is total; symbol in support.
macro_rules! k_c10_ans {
    ($name:ident, $W:ty, $S:ty, $Pr:ty, $P:expr) => {
        #[no_mangle]
        pub extern "C" fn $name(state: $S, w0: $W, len: u32, c1: $Pr, c2: $Pr) -> u32 {
            if len > 1 {
                return 1;
            }
            let m = Cuts::<$Pr, $P> { c1, c2 };
            if !m.valid() {
                return 1;
            }
            let mut coder = AnsCoder::<$W, $S, ArrStack<$W, 3>>::from_raw_parts(
                ArrStack { words: [w0, 0, 0], len: len as usize },
                state,
            );
            let sym = match coder.decode_symbol(m) {
                Ok(d) => d,
                Err(_) => return 3,
            };
            if sym > 2 {
                return 10;
            }
            // a second decode from whatever state resulted is total as well
            let sym2 = match coder.decode_symbol(m) {
                Ok(d) => d,
                Err(_) => return 3,
            };
            if sym2 > 2 {
                return 11;
            }
            0
        }
    };
}
k_c10_ans!(k_c10_ans_u8_u16_p4, u8, u16, u8, 4);
k_c10_ans!(k_c10_ans_u8_u16_p8, u8, u16, u8, 8);
k_c10_ans!(k_c10_ans_u8_u32_p8, u8, u32, u8, 8);
k_c10_ans!(k_c10_ans_u16_u32_p12, u16, u32, u16, 12);
k_c10_ans!(k_c10_ans_u16_u32_p16, u16, u32, u16, 16);
k_c10_ans!(k_c10_ans_u16_u64_p16, u16, u64, u16, 16);
k_c10_ans!(k_c10_ans_u32_u64_p24, u32, u64, u32, 24);
k_c10_ans!(k_c10_ans_u32_u64_p32, u32, u64, u32, 32);

/// C09 `c09_ans_unchanged`: an impossible symbol, or a failing sink at any point, leaves the
/// coder usable: observational oracle (previous symbol still decodes, one more round trip works).
macro_rules! k_c09_ans {
    ($name:ident, $W:ty, $S:ty, $Pr:ty, $P:expr) => {
        #[no_mangle]
        pub extern "C" fn $name(
            state: $S,
            w0: $W,
            len: u32,
            c1: $Pr,
            c2: $Pr,
            sym0: u8,
            bad: u8,
            fail_at: u32,
            sym1: u8,
        ) -> u32 {
            if len > 1 || fail_at > 3 {
                return 1;
            }
            if len == 1 && state < ((1 as $S) << (<$S>::BITS - <$W>::BITS)) {
                return 1;
            }
            let m = Cuts::<$Pr, $P> { c1, c2 };
            if !m.valid() || sym0 > 2 || sym1 > 2 {
                return 1;
            }
            let sink = FailAt {
                inner: ArrStack { words: [w0, 0, 0, 0], len: len as usize },
                writes: 0,
                fail_at: fail_at as usize,
            };
            let mut coder = AnsCoder::<$W, $S, FailAt<$W, 4>>::from_raw_parts(sink, state);
            // history: one earlier symbol (may itself hit the write fault: then nothing to check)
            if coder.encode_symbol(sym0, m).is_err() {
                return 1;
            }
            let st1 = Code::state(&coder);
            let bulk1 = coder.bulk().inner;
            // the failing call: either an impossible symbol or a (possibly) failing write
            let r = coder.encode_symbol(bad, m);
            if bad > 2 {
                match r {
                    Err(constriction::CoderError::Frontend(_)) => {}
                    _ => return 2, // must be the impossible-symbol error
                }
            } else if r.is_ok() {
                return 1; // ordinary successful encode: C01's business
            }
            // sufficient condition (proof structure, reported separately): raw parts unchanged
            let unchanged = Code::state(&coder) == st1
                && coder.bulk().inner.len == bulk1.len
                && coder.bulk().inner.words[0] == bulk1.words[0]
                && coder.bulk().inner.words[1] == bulk1.words[1];
            // observational oracle: lift the fault, encode one more symbol, pop both
            let (mut sink2, st2) = coder.into_raw_parts();
            sink2.fail_at = usize::MAX;
            let mut coder = AnsCoder::<$W, $S, FailAt<$W, 4>>::from_raw_parts(sink2, st2);
            if coder.encode_symbol(sym1, m).is_err() {
                return 3;
            }
            match coder.decode_symbol(m) {
                Ok(d) if d == sym1 => {}
                _ => return 4,
            }
            match coder.decode_symbol(m) {
                Ok(d) if d == sym0 => {}
                _ => return 5,
            }
            let (b3, s3) = coder.into_raw_parts();
            if s3 != state || b3.inner.len != len as usize || (len == 1 && b3.inner.words[0] != w0) {
                return 6;
            }
            if !unchanged {
                return 20; // sufficient condition broken but observation fine: not a violation by itself
            }
            0
        }
    };
}
k_c09_ans!(k_c09_ans_u8_u16_p4, u8, u16, u8, 4);
k_c09_ans!(k_c09_ans_u8_u16_p8, u8, u16, u8, 8);
k_c09_ans!(k_c09_ans_u16_u32_p12, u16, u32, u16, 12);
k_c09_ans!(k_c09_ans_u32_u64_p24, u32, u64, u32, 24);
