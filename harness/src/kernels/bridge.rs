//! Bridge from engine-K harness bodies to engine-L kernels: a harness body is generic over its input
//! source (`ksrc::Src`), so the very same body can be driven by a symbolic byte buffer.  A failed
//! `assume` leaves through `verif_exit(1)` (= verdict "outside the precondition"), a failed `assert!`
//! is a panic (= a bad path the solver must show unreachable), running out of input bytes or asking for
//! a float draws its bit pattern from the buffer; verdict 21 (proof-structure code: UNDECIDED, never a violation).
//! `verif_exit` is modelled by irsym as "the kernel returns `code`"; natively it ends the process with
//! status 64 + code, which the native runner maps back to the same verdict.
use crate::ksrc::Src;

extern "C" {
    fn _exit(code: i32) -> !;
}

#[no_mangle]
#[inline(never)]
pub extern "C" fn verif_exit(code: u32) -> ! {
    unsafe { _exit(64 + code as i32) }
}

pub struct BufSrc<'a, const N: usize> {
    pub buf: &'a [u8; N],
    pub pos: usize,
}

impl<'a, const N: usize> BufSrc<'a, N> {
    #[inline(always)]
    fn next(&mut self, n: usize) -> u64 {
        if self.pos + n > N {
            verif_exit(21)
        }
        let mut x = 0u64;
        let mut i = 0;
        while i < n {
            x |= (self.buf[self.pos + i] as u64) << (8 * i);
            i += 1;
        }
        self.pos += n;
        x
    }
}

impl<'a, const N: usize> Src for BufSrc<'a, N> {
    #[inline(always)]
    fn u8(&mut self) -> u8 {
        self.next(1) as u8
    }
    #[inline(always)]
    fn u16(&mut self) -> u16 {
        self.next(2) as u16
    }
    #[inline(always)]
    fn u32(&mut self) -> u32 {
        self.next(4) as u32
    }
    #[inline(always)]
    fn u64(&mut self) -> u64 {
        self.next(8)
    }
    #[inline(always)]
    fn usize(&mut self) -> usize {
        self.next(8) as usize
    }
    #[inline(always)]
    fn bool(&mut self) -> bool {
        self.next(1) & 1 != 0
    }
    #[inline(always)]
    fn f32(&mut self) -> f32 {
        f32::from_bits(self.next(4) as u32)
    }
    #[inline(always)]
    fn f64(&mut self) -> f64 {
        f64::from_bits(self.next(8))
    }
    #[inline(always)]
    fn assume(&mut self, c: bool) {
        if !c {
            verif_exit(1)
        }
    }
}

macro_rules! hkernel {
    ($name:ident, $($path:ident)::+, $N:expr) => {
        #[no_mangle]
        pub extern "C" fn $name(buf: &[u8; $N]) -> u32 {
            let mut s = BufSrc::<$N> { buf, pos: 0 };
            $($path)::+::body(&mut s);
            0
        }
    };
}

hkernel!(k_h_huffman_n2, crate::proofs::bits::huffman_n2, 32);
hkernel!(k_h_huffman_n3, crate::proofs::bits::huffman_n3, 40);
hkernel!(k_h_huffman_n4, crate::proofs::bits::huffman_n4, 48);

// harnesses that CBMC does not finish (thorough tier only there): full-width / symbolic-run-length variants
hkernel!(k_h_range_guard_inverted_u8_u16, crate::proofs::rangek::range_guard_inverted_u8_u16, 64);
hkernel!(k_h_range_guard_inverted_u16_u32, crate::proofs::rangek::range_guard_inverted_u16_u32, 64);
hkernel!(k_h_range_guard_inverted_u32_u64, crate::proofs::rangek::range_guard_inverted_u32_u64, 64);
hkernel!(k_h_range_guard_normal_u32_u64, crate::proofs::rangek::range_guard_normal_u32_u64, 64);
hkernel!(k_h_ans_view_u32_u64, crate::proofs::ans::view_u32_u64, 96);
hkernel!(k_h_ans_binary_u32_u64, crate::proofs::ans::binary_u32_u64, 96);
hkernel!(k_h_ans_guards_u32_u64, crate::proofs::ans::guards_u32_u64, 96);
hkernel!(k_h_expgolomb_u16, crate::proofs::bits::expgolomb_u16, 64);
hkernel!(k_h_expgolomb_through_coders, crate::proofs::bits::expgolomb_through_coders, 64);
hkernel!(k_h_fixed_noncontig_p4, crate::proofs::models::fixed_noncontig_p4, 96);
hkernel!(k_h_fixed_noncontig_p8, crate::proofs::models::fixed_noncontig_p8, 96);
hkernel!(k_h_fixed_lookup_p3, crate::proofs::models::fixed_lookup_p3, 96);
hkernel!(k_h_ans_binary_u16_u32, crate::proofs::ans::binary_u16_u32, 96);
hkernel!(k_h_ans_binary_u8_u32, crate::proofs::ans::binary_u8_u32, 96);
hkernel!(k_h_ans_ctor_u8_u32, crate::proofs::ans::ctor_u8_u32, 96);
hkernel!(k_h_ans_export_u8_u32, crate::proofs::ans::export_u8_u32, 96);
hkernel!(k_h_ans_view_u8_u32, crate::proofs::ans::view_u8_u32, 96);
hkernel!(k_h_ans_reimport_u8_u32, crate::proofs::ans::reimport_u8_u32, 96);
hkernel!(k_h_ans_ctor_u32_u64, crate::proofs::ans::ctor_u32_u64, 96);
hkernel!(k_h_ans_export_u32_u64, crate::proofs::ans::export_u32_u64, 96);
hkernel!(k_h_ans_reimport_u32_u64, crate::proofs::ans::reimport_u32_u64, 96);
hkernel!(k_h_stack_guard, crate::proofs::bits::stack_guard, 96);
hkernel!(k_h_queue_guard, crate::proofs::bits::queue_guard, 96);
hkernel!(k_h_stack_lifo_script, crate::proofs::bits::stack_lifo_script, 128);
hkernel!(k_h_queue_fifo, crate::proofs::bits::queue_fifo, 128);
hkernel!(k_h_huffman_float_n2, crate::proofs::bits::huffman_float_n2, 32);
hkernel!(k_h_huffman_float_n3, crate::proofs::bits::huffman_float_n3, 32);
hkernel!(k_h_fast_f32_n3_p4_norm1, crate::proofs::models::fast_f32_n3_p4_norm1, 64);
hkernel!(k_h_fast_f32_n2_p3_nonorm, crate::proofs::models::fast_f32_n2_p3_nonorm, 64);
hkernel!(k_h_lazy_vs_eager_f32_n3_p4, crate::proofs::models::lazy_vs_eager_f32_n3_p4, 64);
hkernel!(k_h_lazy_f32_n3_p4_valid, crate::proofs::models::lazy_f32_n3_p4_valid, 64);
hkernel!(k_h_fast_f32_n3_p24_u32, crate::proofs::models::fast_f32_n3_p24_u32, 64);
