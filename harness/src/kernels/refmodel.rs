//! C06 / C12: the implementation against reference models written WITHOUT its bookkeeping.
//! * rANS reference: textbook streaming rANS with one scalar state and a word list.
//! * Range-coding reference: exact wide-integer interval arithmetic -- the whole output is one big
//!   integer `low` (u128) plus a `range`; carries happen inside the big addition; there is no
//!   `situation`, no held-back word, no inverted counter. Sealing follows the four-step rule of
//!   `notes/range-coding.md`.
//! The references are pinned natively to the byte-exact vectors published in the project's
//! documentation by `bin/refpin` (a precondition of the check).
use crate::common::*;
use constriction::backends::{ReadWords, WriteWords};
use constriction::stream::queue::{EncoderSituation, RangeCoderState, RangeEncoder};
use constriction::stream::stack::AnsCoder;
use constriction::stream::{Code, Decode, Encode};

/// C06 `c06_ans_ref`: K symbols pushed from any invariant state; `into_compressed()` equals the
/// reference serialisation (bulk, flushed words, then the state words least-significant first with
/// leading zero words dropped).
macro_rules! k_c06_ans {
    ($name:ident, $W:ty, $S:ty, $Pr:ty, $P:expr, $K:expr) => {
        #[no_mangle]
        pub extern "C" fn $name(state: $S, w0: $W, len: u32, cuts: &[$Pr; 2 * $K], syms: &[u8; $K]) -> u32 {
            const WB: u32 = <$W>::BITS;
            const SB: u32 = <$S>::BITS;
            if len > 1 {
                return 1;
            }
            if len == 1 && state < ((1 as $S) << (SB - WB)) {
                return 1;
            }
            let mut ms = [Cuts::<$Pr, $P> { c1: 1, c2: 2 }; $K];
            let mut i = 0;
            while i < $K {
                ms[i] = Cuts::<$Pr, $P> { c1: cuts[2 * i], c2: cuts[2 * i + 1] };
                if !ms[i].valid() || syms[i] > 2 {
                    return 1;
                }
                i += 1;
            }
            // implementation
            let mut coder = AnsCoder::<$W, $S, ArrStack<$W, 8>>::from_raw_parts(
                ArrStack { words: [w0, 0, 0, 0, 0, 0, 0, 0], len: len as usize },
                state,
            );
            let mut i = 0;
            while i < $K {
                if coder.encode_symbol(syms[i], ms[i]).is_err() {
                    return 2;
                }
                i += 1;
            }
            let got = match coder.into_compressed() {
                Ok(g) => g,
                Err(_) => return 3,
            };
            // reference
            let mut x: $S = state;
            let mut want = [0 as $W; 8];
            let mut n = 0usize;
            if len == 1 {
                want[0] = w0;
                n = 1;
            }
            let mut i = 0;
            while i < $K {
                let (cum, p) = ms[i].cp(syms[i]);
                let (cum, p) = (cum as $S, p as $S);
                // x_max = ((L >> P) << WB) * p with L = 2^(SB-WB); compare in the wide type
                let x_max: u128 = (((1u128 << (SB - WB)) >> $P) << WB) * (p as u128);
                let mut guard = 0;
                while (x as u128) >= x_max && guard < 2 {
                    want[n] = x as $W;
                    n += 1;
                    x = x >> WB;
                    guard += 1;
                }
                x = ((x / p) << $P) + (x % p) + cum;
                i += 1;
            }
            let mut rest = x;
            let mut guard = 0;
            while rest != 0 && guard < (SB / WB) {
                want[n] = rest as $W;
                n += 1;
                rest = rest >> WB;
                guard += 1;
            }
            if got.len != n {
                return 4;
            }
            let mut i = 0;
            while i < n {
                if got.words[i] != want[i] {
                    return 5;
                }
                i += 1;
            }
            0
        }
    };
}
k_c06_ans!(k_c06_ans_k1_u8_u16_p4, u8, u16, u8, 4, 1);
k_c06_ans!(k_c06_ans_k1_u8_u16_p8, u8, u16, u8, 8, 1);
k_c06_ans!(k_c06_ans_k2_u8_u16_p4, u8, u16, u8, 4, 2);
k_c06_ans!(k_c06_ans_k2_u8_u16_p8, u8, u16, u8, 8, 2);
k_c06_ans!(k_c06_ans_k3_u8_u16_p8, u8, u16, u8, 8, 3);
k_c06_ans!(k_c06_ans_k1_u8_u32_p8, u8, u32, u8, 8, 1);
k_c06_ans!(k_c06_ans_k1_u16_u32_p12, u16, u32, u16, 12, 1);
k_c06_ans!(k_c06_ans_k2_u16_u32_p12, u16, u32, u16, 12, 2);
k_c06_ans!(k_c06_ans_k1_u16_u32_p16, u16, u32, u16, 16, 1);
k_c06_ans!(k_c06_ans_k1_u32_u64_p24, u32, u64, u32, 24, 1);
k_c06_ans!(k_c06_ans_k2_u32_u64_p24, u32, u64, u32, 24, 2);
k_c06_ans!(k_c06_ans_k1_u32_u64_p32, u32, u64, u32, 32, 1);

/// C06 `c06_range_ref`: K symbols from a FRESH encoder; the sealed words equal the digits of the
/// big integer chosen by the documented sealing rule applied to exact wide-integer interval arithmetic.
macro_rules! k_c06_range {
    ($name:ident, $W:ty, $S:ty, $Pr:ty, $P:expr, $K:expr) => {
        #[no_mangle]
        pub extern "C" fn $name(cuts: &[$Pr; 2 * $K], syms: &[u8; $K], k: u32) -> u32 {
            const WB: u32 = <$W>::BITS;
            const SB: u32 = <$S>::BITS;
            const NQ: usize = 2 * $K + 4;
            if k as usize > $K {
                return 1;
            }
            let k = k as usize;
            let mut ms = [Cuts::<$Pr, $P> { c1: 1, c2: 2 }; $K];
            let mut i = 0;
            while i < k {
                ms[i] = Cuts::<$Pr, $P> { c1: cuts[2 * i], c2: cuts[2 * i + 1] };
                if !ms[i].valid() || syms[i] > 2 {
                    return 1;
                }
                i += 1;
            }
            // implementation
            let mut enc = RangeEncoder::<$W, $S, _>::with_backend(ArrQueue::<$W, NQ> { words: [0; NQ], len: 0, rpos: 0 });
            let mut i = 0;
            while i < k {
                if enc.encode_symbol(syms[i], ms[i]).is_err() {
                    return 2;
                }
                i += 1;
            }
            let got = match enc.into_compressed() {
                Ok(q) => q,
                Err(_) => return 3,
            };
            // reference: wide-integer interval [low, low + range), nshift words already shifted out
            let mut low: u128 = 0;
            let mut range: $S = <$S>::MAX;
            let mut nshift: u32 = 0;
            let mut i = 0;
            while i < k {
                let (cum, p) = ms[i].cp(syms[i]);
                let scale: $S = range >> $P;
                low += (scale * (cum as $S)) as u128;
                range = scale * (p as $S);
                if range < ((1 as $S) << (SB - WB)) {
                    range = range << WB;
                    low = low << WB;
                    nshift += 1;
                }
                i += 1;
            }
            let mut want = [0 as $W; NQ];
            let mut n = 0usize;
            if k > 0 {
                // sealing: point = low + 2^(SB-WB) - 1; emit its digits above the (SB-WB) low bits
                let point: u128 = low + ((1u128 << (SB - WB)) - 1);
                let z: u128 = point >> (SB - WB);
                let ndig = nshift + 1;
                let mut d = 0;
                while d < ndig {
                    want[n] = (z >> (WB * (ndig - 1 - d))) as $W;
                    n += 1;
                    d += 1;
                }
                let upper: u128 = low + range as u128;
                let upper_word = (upper >> (SB - WB)) as $W;
                let point_word = z as $W;
                if upper_word == point_word {
                    want[n] = 0;
                    n += 1;
                }
            }
            if got.len != n {
                return 4;
            }
            let mut i = 0;
            while i < n {
                if got.words[i] != want[i] {
                    return 5;
                }
                i += 1;
            }
            0
        }
    };
}
k_c06_range!(k_c06_range_k1_u8_u16_p4, u8, u16, u8, 4, 1);
k_c06_range!(k_c06_range_k1_u8_u16_p8, u8, u16, u8, 8, 1);
k_c06_range!(k_c06_range_k2_u8_u16_p4, u8, u16, u8, 4, 2);
k_c06_range!(k_c06_range_k2_u8_u16_p8, u8, u16, u8, 8, 2);
k_c06_range!(k_c06_range_k3_u8_u16_p8, u8, u16, u8, 8, 3);
k_c06_range!(k_c06_range_k1_u8_u32_p8, u8, u32, u8, 8, 1);
k_c06_range!(k_c06_range_k1_u16_u32_p12, u16, u32, u16, 12, 1);
k_c06_range!(k_c06_range_k2_u16_u32_p12, u16, u32, u16, 12, 2);
k_c06_range!(k_c06_range_k1_u16_u32_p16, u16, u32, u16, 16, 1);
k_c06_range!(k_c06_range_k1_u32_u64_p24, u32, u64, u32, 24, 1);
k_c06_range!(k_c06_range_k1_u32_u64_p32, u32, u64, u32, 32, 1);

/// C06 `c06_range_ref_state`: same reference from any raw state in the Normal situation (empty sink);
/// this reaches carries and inverted runs with `lower`/`range` chosen by the solver.
macro_rules! k_c06_range_state {
    ($name:ident, $W:ty, $S:ty, $Pr:ty, $P:expr, $K:expr) => {
        #[no_mangle]
        pub extern "C" fn $name(lower: $S, range0: $S, cuts: &[$Pr; 2 * $K], syms: &[u8; $K]) -> u32 {
            const WB: u32 = <$W>::BITS;
            const SB: u32 = <$S>::BITS;
            const NQ: usize = 2 * $K + 4;
            let st = match RangeCoderState::<$W, $S>::new(lower, range0) {
                Ok(s) => s,
                Err(_) => return 1,
            };
            if lower.wrapping_add(range0) <= lower || range0 == <$S>::MAX {
                return 1;
            }
            let mut ms = [Cuts::<$Pr, $P> { c1: 1, c2: 2 }; $K];
            let mut i = 0;
            while i < $K {
                ms[i] = Cuts::<$Pr, $P> { c1: cuts[2 * i], c2: cuts[2 * i + 1] };
                if !ms[i].valid() || syms[i] > 2 {
                    return 1;
                }
                i += 1;
            }
            let q = ArrQueue::<$W, NQ> { words: [0; NQ], len: 0, rpos: 0 };
            let mut enc = RangeEncoder::<$W, $S, _>::from_raw_parts(q, st, EncoderSituation::Normal);
            let mut i = 0;
            while i < $K {
                if enc.encode_symbol(syms[i], ms[i]).is_err() {
                    return 2;
                }
                i += 1;
            }
            let got = match enc.into_compressed() {
                Ok(q) => q,
                Err(_) => return 3,
            };
            let mut low: u128 = lower as u128;
            let mut range: $S = range0;
            let mut nshift: u32 = 0;
            let mut i = 0;
            while i < $K {
                let (cum, p) = ms[i].cp(syms[i]);
                let scale: $S = range >> $P;
                low += (scale * (cum as $S)) as u128;
                range = scale * (p as $S);
                if range < ((1 as $S) << (SB - WB)) {
                    range = range << WB;
                    low = low << WB;
                    nshift += 1;
                }
                i += 1;
            }
            let mut want = [0 as $W; NQ];
            let mut n = 0usize;
            let point: u128 = low + ((1u128 << (SB - WB)) - 1);
            let z: u128 = point >> (SB - WB);
            let ndig = nshift + 1;
            let mut d = 0;
            while d < ndig {
                want[n] = (z >> (WB * (ndig - 1 - d))) as $W;
                n += 1;
                d += 1;
            }
            let upper: u128 = low + range as u128;
            if (upper >> (SB - WB)) as $W == z as $W {
                want[n] = 0;
                n += 1;
            }
            if got.len != n {
                return 4;
            }
            let mut i = 0;
            while i < n {
                if got.words[i] != want[i] {
                    return 5;
                }
                i += 1;
            }
            0
        }
    };
}
k_c06_range_state!(k_c06_range_state_k1_u8_u16_p4, u8, u16, u8, 4, 1);
k_c06_range_state!(k_c06_range_state_k1_u8_u16_p8, u8, u16, u8, 8, 1);
k_c06_range_state!(k_c06_range_state_k2_u8_u16_p4, u8, u16, u8, 4, 2);
k_c06_range_state!(k_c06_range_state_k2_u8_u16_p8, u8, u16, u8, 8, 2);
k_c06_range_state!(k_c06_range_state_k1_u16_u32_p12, u16, u32, u16, 12, 1);
k_c06_range_state!(k_c06_range_state_k2_u16_u32_p12, u16, u32, u16, 12, 2);
k_c06_range_state!(k_c06_range_state_k1_u32_u64_p24, u32, u64, u32, 24, 1);

/// C12 `c12_ans_step`: per-symbol potential inequalities of the ANS coder (no logarithms), from any
/// invariant state with non-empty bulk:  with f = words flushed (0/1), s_f = s >> (WB f), e = SB-WB-P:
///   (i)  s_f >= p * 2^e        (ii)  s' * p < (s_f + p) * 2^P        (iii) f <= 1, flushed word = low word of s
/// which give  s' 2^(WB f) p 2^e <= s 2^P (2^e + 1),  i.e. one symbol costs at most its information content
/// plus log2(1 + 2^-e) bits (telescoping: evidence note).  From the empty coder: s' < 2^SB, no word written
/// unless s >= p << (SB-P).
macro_rules! k_c12_ans {
    ($name:ident, $W:ty, $S:ty, $Pr:ty, $P:expr) => {
        #[no_mangle]
        pub extern "C" fn $name(state: $S, w0: $W, len: u32, c1: $Pr, c2: $Pr, sym: u8) -> u32 {
            const WB: u32 = <$W>::BITS;
            const SB: u32 = <$S>::BITS;
            const E: u32 = SB - WB - $P;
            if len > 1 {
                return 1;
            }
            if len == 1 && state < ((1 as $S) << (SB - WB)) {
                return 1;
            }
            let m = Cuts::<$Pr, $P> { c1, c2 };
            if !m.valid() || sym > 2 {
                return 1;
            }
            let (_cum, p) = m.cp(sym);
            let p = p as u128;
            let mut coder = AnsCoder::<$W, $S, ArrStack<$W, 4>>::from_raw_parts(ArrStack { words: [w0, 0, 0, 0], len: len as usize }, state);
            if coder.encode_symbol(sym, m).is_err() {
                return 2;
            }
            let (b2, s2) = coder.into_raw_parts();
            if b2.len < len as usize || b2.len > len as usize + 1 {
                return 3; // at most one word per symbol
            }
            let f = (b2.len - len as usize) as u32;
            let s = state as u128;
            let s_f = s >> (WB * f);
            if f == 1 {
                if b2.words[len as usize] != state as $W {
                    return 4;
                }
                // a word is written only if the state would otherwise overflow: s >= p << (SB-P)
                if s < (p << (SB - $P)) {
                    return 5;
                }
            }
            if len == 1 {
                if s_f < (p << E) {
                    return 6;
                }
            }
            let s2 = s2 as u128;
            if s2 * p >= (s_f + p) << $P {
                return 7;
            }
            if len == 0 && f == 0 && (s2 >> SB) != 0 {
                return 8;
            }
            0
        }
    };
}
k_c12_ans!(k_c12_ans_u8_u16_p4, u8, u16, u8, 4);
k_c12_ans!(k_c12_ans_u8_u16_p8, u8, u16, u8, 8);
k_c12_ans!(k_c12_ans_u8_u32_p8, u8, u32, u8, 8);
k_c12_ans!(k_c12_ans_u16_u32_p12, u16, u32, u16, 12);
k_c12_ans!(k_c12_ans_u16_u32_p16, u16, u32, u16, 16);
k_c12_ans!(k_c12_ans_u16_u64_p16, u16, u64, u16, 16);
k_c12_ans!(k_c12_ans_u32_u64_p24, u32, u64, u32, 24);
k_c12_ans!(k_c12_ans_u32_u64_p32, u32, u64, u32, 32);

/// C12 `c12_range_step`: range-coder analogue from any `Inv_renc` state: with r = growth of
/// (|bulk| + held-back words) in {0,1} and range' the new range:
///   (range' >> (WB r)) * 2^P >= p * (range - (2^P - 1)),   r <= 1 (+ release of n held-back words),
/// and sealing adds at most 2 + held-back words.
macro_rules! k_c12_range {
    ($name:ident, $W:ty, $S:ty, $Pr:ty, $P:expr) => {
        #[no_mangle]
        pub extern "C" fn $name(lower: $S, range: $S, inverted: u8, n: u32, w: $W, c1: $Pr, c2: $Pr, sym: u8) -> u32 {
            const WB: u32 = <$W>::BITS;
            const SB: u32 = <$S>::BITS;
            const NQ: usize = 12;
            let st = match RangeCoderState::<$W, $S>::new(lower, range) {
                Ok(s) => s,
                Err(_) => return 1,
            };
            let wraps = lower.wrapping_add(range) <= lower;
            let (sit, held) = if inverted != 0 {
                if !wraps || n == 0 || n > 3 || w == <$W>::MAX {
                    return 1;
                }
                (EncoderSituation::Inverted(core::num::NonZeroUsize::new(n as usize).unwrap(), w), n as usize)
            } else {
                if wraps {
                    return 1;
                }
                (EncoderSituation::Normal, 0usize)
            };
            let m = Cuts::<$Pr, $P> { c1, c2 };
            if !m.valid() || sym > 2 {
                return 1;
            }
            let (_cum, p) = m.cp(sym);
            let q = ArrQueue::<$W, NQ> { words: [0; NQ], len: 0, rpos: 0 };
            let mut enc = RangeEncoder::<$W, $S, _>::from_raw_parts(q, st, sit);
            if enc.encode_symbol(sym, m).is_err() {
                return 2;
            }
            let sealed_len = match enc.clone().into_compressed() {
                Ok(q) => q.len,
                Err(_) => return 3,
            };
            let (q, st2, sit2) = enc.into_raw_parts();
            let held2 = match sit2 {
                EncoderSituation::Normal => 0usize,
                EncoderSituation::Inverted(n2, _) => n2.get(),
            };
            let total_before = held;
            let total_after = q.len + held2;
            if total_after < total_before || total_after > total_before + 1 {
                return 4; // every symbol adds at most one (written or held-back) word
            }
            let r = (total_after - total_before) as u32;
            let lhs = ((st2.range().get() as u128) >> (WB * r)) << $P;
            let rhs = (p as u128) * ((range as u128) - ((1u128 << $P) - 1));
            if lhs < rhs {
                return 5;
            }
            if sealed_len > total_after + 2 || sealed_len < total_after + 1 {
                return 6; // sealing emits the held-back words plus one or two words
            }
            0
        }
    };
}
k_c12_range!(k_c12_range_u8_u16_p4, u8, u16, u8, 4);
k_c12_range!(k_c12_range_u8_u16_p8, u8, u16, u8, 8);
k_c12_range!(k_c12_range_u8_u32_p8, u8, u32, u8, 8);
k_c12_range!(k_c12_range_u16_u32_p12, u16, u32, u16, 12);
k_c12_range!(k_c12_range_u16_u32_p16, u16, u32, u16, 16);
k_c12_range!(k_c12_range_u32_u64_p24, u32, u64, u32, 24);
k_c12_range!(k_c12_range_u32_u64_p32, u32, u64, u32, 32);

/// C12 `c12_words_k`: the stated bound itself, end to end from the EMPTY coder, in product form (u128):
///   2^(WB words) * prod(p_i) * 2^(e k) <= 2^(P k) * (2^e + 1)^k * 2^(SB + 2 WB)   and   words <= k + SB/WB + 2,
/// for the ANS coder and (words only / same product form with its own constant) the range encoder.
macro_rules! k_c12_words {
    ($name:ident, $W:ty, $S:ty, $Pr:ty, $P:expr, $K:expr) => {
        #[no_mangle]
        pub extern "C" fn $name(cuts: &[$Pr; 2 * $K], syms: &[u8; $K]) -> u32 {
            const WB: u32 = <$W>::BITS;
            const SB: u32 = <$S>::BITS;
            const E: u32 = SB - WB - $P;
            let mut ms = [Cuts::<$Pr, $P> { c1: 1, c2: 2 }; $K];
            let mut prod: u128 = 1;
            let mut i = 0;
            while i < $K {
                ms[i] = Cuts::<$Pr, $P> { c1: cuts[2 * i], c2: cuts[2 * i + 1] };
                if !ms[i].valid() || syms[i] > 2 {
                    return 1;
                }
                prod *= ms[i].cp(syms[i]).1 as u128;
                i += 1;
            }
            let mut ans = AnsCoder::<$W, $S, ArrStack<$W, 8>>::from_raw_parts(ArrStack { words: [0; 8], len: 0 }, 0);
            let mut enc = RangeEncoder::<$W, $S, _>::with_backend(ArrQueue::<$W, 12> { words: [0; 12], len: 0, rpos: 0 });
            let mut i = 0;
            while i < $K {
                if ans.encode_symbol(syms[i], ms[i]).is_err() || enc.encode_symbol(syms[i], ms[i]).is_err() {
                    return 2;
                }
                i += 1;
            }
            let a = match ans.into_compressed() {
                Ok(a) => a,
                Err(_) => return 3,
            };
            let q = match enc.into_compressed() {
                Ok(q) => q,
                Err(_) => return 3,
            };
            let kk: u32 = $K;
            if a.len > $K + (SB / WB) as usize + 2 || q.len > $K + (SB / WB) as usize + 2 {
                return 4;
            }
            // product form of: bits <= sum(-log2 p_i/2^P) + k log2(1+2^-e) + SB + 2 WB
            let mut pw: u128 = 1; // (2^e + 1)^k
            let mut i = 0;
            while i < kk {
                pw *= (1u128 << E) + 1;
                i += 1;
            }
            let rhs: u128 = (pw << ($P * kk)) << (SB + 2 * WB);
            let lhs_a: u128 = ((1u128 << (WB * a.len as u32)) * prod) << (E * kk);
            let lhs_q: u128 = ((1u128 << (WB * q.len as u32)) * prod) << (E * kk);
            if lhs_a > rhs {
                return 5;
            }
            if lhs_q > rhs {
                return 6;
            }
            0
        }
    };
}
k_c12_words!(k_c12_words_k1_u8_u16_p4, u8, u16, u8, 4, 1);
k_c12_words!(k_c12_words_k2_u8_u16_p4, u8, u16, u8, 4, 2);
k_c12_words!(k_c12_words_k2_u8_u16_p8, u8, u16, u8, 8, 2);
k_c12_words!(k_c12_words_k3_u8_u16_p4, u8, u16, u8, 4, 3);
k_c12_words!(k_c12_words_k1_u16_u32_p12, u16, u32, u16, 12, 1);

/// C06 / C02 `c06_range_ref_inverted`: one symbol encoded from ANY raw state in an INVERTED situation
/// (n held-back words, first one `w`) with an empty sink, then sealed: the emitted words equal the digits
/// chosen by the sealing rule applied to the exact wide integer whose top digits are the held-back words
/// (`w`, then n-1 all-ones words -- the digits of `lower` as long as no carry arrives). This is the inductive
/// cut for carry propagation: held-back runs of any length reduce to it.
macro_rules! k_c06_range_inverted {
    ($name:ident, $W:ty, $S:ty, $Pr:ty, $P:expr, $NMAX:expr) => {
        #[no_mangle]
        pub extern "C" fn $name(lower: $S, range0: $S, n: u32, w: $W, c1: $Pr, c2: $Pr, sym: u8) -> u32 {
            const WB: u32 = <$W>::BITS;
            const SB: u32 = <$S>::BITS;
            const NQ: usize = 10;
            let st = match RangeCoderState::<$W, $S>::new(lower, range0) {
                Ok(s) => s,
                Err(_) => return 1,
            };
            if lower.wrapping_add(range0) > lower || n == 0 || n > $NMAX || w == <$W>::MAX {
                return 1;
            }
            let m = Cuts::<$Pr, $P> { c1, c2 };
            if !m.valid() || sym > 2 {
                return 1;
            }
            let q = ArrQueue::<$W, NQ> { words: [0; NQ], len: 0, rpos: 0 };
            let sit = EncoderSituation::Inverted(core::num::NonZeroUsize::new(n as usize).unwrap(), w);
            let mut enc = RangeEncoder::<$W, $S, _>::from_raw_parts(q, st, sit);
            if enc.encode_symbol(sym, m).is_err() {
                return 2;
            }
            let got = match enc.into_compressed() {
                Ok(q) => q,
                Err(_) => return 3,
            };
            // reference
            let held: u128 = ((w as u128) << (WB * (n - 1))) | ((1u128 << (WB * (n - 1))) - 1);
            let mut low: u128 = (held << SB) | (lower as u128);
            let (cum, p) = m.cp(sym);
            let scale: $S = range0 >> $P;
            low += (scale * (cum as $S)) as u128;
            let mut range: $S = scale * (p as $S);
            let mut nshift: u32 = 0;
            if range < ((1 as $S) << (SB - WB)) {
                range = range << WB;
                low = low << WB;
                nshift = 1;
            }
            let point: u128 = low + ((1u128 << (SB - WB)) - 1);
            let z: u128 = point >> (SB - WB);
            let ndig = n + nshift + 1;
            let mut want = [0 as $W; NQ];
            let mut k = 0usize;
            let mut d = 0;
            while d < ndig {
                want[k] = (z >> (WB * (ndig - 1 - d))) as $W;
                k += 1;
                d += 1;
            }
            let upper: u128 = low + range as u128;
            if (upper >> (SB - WB)) as $W == z as $W {
                want[k] = 0;
                k += 1;
            }
            if got.len != k {
                return 4;
            }
            let mut i = 0;
            while i < k {
                if got.words[i] != want[i] {
                    return 5;
                }
                i += 1;
            }
            0
        }
    };
}
k_c06_range_inverted!(k_c06_range_inv_u8_u16_p4, u8, u16, u8, 4, 3);
k_c06_range_inverted!(k_c06_range_inv_u8_u16_p8, u8, u16, u8, 8, 3);
k_c06_range_inverted!(k_c06_range_inv_u16_u32_p12, u16, u32, u16, 12, 2);
k_c06_range_inverted!(k_c06_range_inv_u16_u32_p16, u16, u32, u16, 16, 2);
k_c06_range_inverted!(k_c06_range_inv_u32_u64_p24, u32, u64, u32, 24, 1);
