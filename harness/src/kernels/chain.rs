//! Engine-L kernels for the chain coder (C09, C10, C13, C14).
//! A coder with ARBITRARY heads is obtained through the public API plus the feature-guarded
//! `ChainCoderHeads::from_raw_parts` hook: build from raw binary data, then `Seek::seek` to a
//! position carrying the symbolic heads and the symbolic back-end heights.
use crate::common::*;
use constriction::backends::{ReadWords, WriteWords};
use constriction::stream::chain::{BackendPosition, ChainCoder, ChainCoderHeads};
use constriction::stream::{Code, Decode, Encode};
use constriction::{BitArray, CoderError, NonZeroBitArray, Pos, Seek};

pub type CC<W, S, const P: usize> = ChainCoder<W, S, ArrStack<W, 8>, ArrStack<W, 8>, P>;

macro_rules! inv_chain {
    ($W:ty, $S:ty, $P:expr, $rh:expr) => {
        $rh >= ((1 as $S) << (<$S>::BITS as usize - <$W>::BITS as usize - $P)) && ($rh >> (<$S>::BITS as usize - $P)) == 0
    };
}

/// C13 `c13_step` (+ C10 totality of the decode, + C14 quantile = low PRECISION bits): from any
/// `Inv_chain` heads and any top data word, `decode_symbol` then `encode_symbol` restores everything.
macro_rules! k_c13_step {
    ($name:ident, $W:ty, $S:ty, $Pr:ty, $P:expr) => {
        #[no_mangle]
        pub extern "C" fn $name(ch: $W, rh: $S, w0: $W, clen: u32, c1: $Pr, c2: $Pr) -> u32 {
            if clen > 1 || ch == 0 {
                return 1;
            }
            if !inv_chain!($W, $S, $P, rh) {
                return 1;
            }
            let m = Cuts::<$Pr, $P> { c1, c2 };
            if !m.valid() {
                return 1;
            }
            let mut words = [<$W>::MAX; 8];
            words[0] = w0;
            let data = ArrStack::<$W, 8> { words, len: 8 };
            let mut coder = match CC::<$W, $S, $P>::from_binary(data) {
                Ok(c) => c,
                Err(_) => return 1,
            };
            let heads = ChainCoderHeads::<$W, $S, $P>::from_raw_parts(<$W as BitArray>::into_nonzero(ch).unwrap(), rh);
            if coder.seek((BackendPosition { compressed: clen as usize, remainders: 0usize }, heads)).is_err() {
                return 1;
            }
            let sym = match coder.decode_symbol(m) {
                Ok(s) => s,
                Err(CoderError::Frontend(_)) => {
                    // documented out-of-data error: nothing may have changed
                    let (pos, h) = coder.pos();
                    let (ch2, rh2) = h.into_raw_parts();
                    if ch2.get() != ch || rh2 != rh || pos.compressed != clen as usize || pos.remainders != 0 {
                        return 14;
                    }
                    if clen != 0 {
                        return 15; // data was available: no reason to fail
                    }
                    return 0;
                }
                Err(_) => return 3,
            };
            if sym > 2 {
                return 10;
            }
            {
                let (pos, h) = coder.pos();
                let (ch2, rh2) = h.into_raw_parts();
                if !inv_chain!($W, $S, $P, rh2) || ch2.get() == 0 {
                    return 20; // proof structure: invariant preserved
                }
                if pos.remainders > 1 || pos.compressed > clen as usize {
                    return 21;
                }
            }
            if coder.encode_symbol(sym, m).is_err() {
                return 2;
            }
            let (pos, h) = coder.pos();
            let (ch2, rh2) = h.into_raw_parts();
            if ch2.get() != ch {
                return 5;
            }
            if rh2 != rh {
                return 6;
            }
            if pos.compressed != clen as usize || pos.remainders != 0 {
                return 7;
            }
            if clen == 1 {
                // the word written back must be the word that was read
                let (comp, _rem) = match coder.into_remainders() {
                    Ok(x) => x,
                    Err(_) => return 9,
                };
                if comp.len != 1 || comp.words[0] != w0 {
                    return 8;
                }
            }
            0
        }
    };
}
k_c13_step!(k_c13_step_u8_u16_p4, u8, u16, u8, 4);
k_c13_step!(k_c13_step_u8_u16_p8, u8, u16, u8, 8);
k_c13_step!(k_c13_step_u8_u16_p3, u8, u16, u8, 3);
k_c13_step!(k_c13_step_u8_u16_p7, u8, u16, u8, 7);
k_c13_step!(k_c13_step_u16_u32_p9, u16, u32, u16, 9);
k_c13_step!(k_c13_step_u32_u64_p17, u32, u64, u32, 17);
k_c13_step!(k_c13_step_u8_u32_p8, u8, u32, u8, 8);
k_c13_step!(k_c13_step_u16_u32_p12, u16, u32, u16, 12);
k_c13_step!(k_c13_step_u16_u32_p16, u16, u32, u16, 16);
k_c13_step!(k_c13_step_u16_u64_p16, u16, u64, u16, 16);
k_c13_step!(k_c13_step_u32_u64_p24, u32, u64, u32, 24);
k_c13_step!(k_c13_step_u32_u64_p32, u32, u64, u32, 32);

/// C09 `c09_chain`: an impossible symbol is refused and the coder is untouched.
macro_rules! k_c09_chain {
    ($name:ident, $W:ty, $S:ty, $Pr:ty, $P:expr) => {
        #[no_mangle]
        pub extern "C" fn $name(ch: $W, rh: $S, c1: $Pr, c2: $Pr, bad: u8) -> u32 {
            if ch == 0 || bad <= 2 {
                return 1;
            }
            if !inv_chain!($W, $S, $P, rh) {
                return 1;
            }
            let m = Cuts::<$Pr, $P> { c1, c2 };
            if !m.valid() {
                return 1;
            }
            let data = ArrStack::<$W, 8> { words: [<$W>::MAX; 8], len: 8 };
            let mut coder = match CC::<$W, $S, $P>::from_binary(data) {
                Ok(c) => c,
                Err(_) => return 1,
            };
            let heads = ChainCoderHeads::<$W, $S, $P>::from_raw_parts(<$W as BitArray>::into_nonzero(ch).unwrap(), rh);
            if coder.seek((BackendPosition { compressed: 1usize, remainders: 1usize }, heads)).is_err() {
                return 1;
            }
            match coder.encode_symbol(bad, m) {
                Err(CoderError::Frontend(constriction::stream::chain::EncoderFrontendError::ImpossibleSymbol)) => {}
                _ => return 2,
            }
            let (pos, h) = coder.pos();
            let (ch2, rh2) = h.into_raw_parts();
            if ch2.get() != ch || rh2 != rh || pos.compressed != 1 || pos.remainders != 1 {
                return 5;
            }
            0
        }
    };
}
k_c09_chain!(k_c09_chain_u8_u16_p4, u8, u16, u8, 4);
k_c09_chain!(k_c09_chain_u8_u16_p8, u8, u16, u8, 8);
k_c09_chain!(k_c09_chain_u16_u32_p12, u16, u32, u16, 12);
k_c09_chain!(k_c09_chain_u32_u64_p24, u32, u64, u32, 24);

/// C13 `c13_rt_k` + C14 `c14_locality`: decode K symbols from arbitrary binary data, export the
/// remainders, re-import (suffix only / prefix ++ suffix), encode back in reverse, export: the original
/// words come back. Second run with model J replaced by another model: symbols at other positions,
/// error pattern and data consumption are identical (locality).
macro_rules! k_c13_rt {
    ($name:ident, $W:ty, $S:ty, $Pr:ty, $P:expr, $K:expr, $ND:expr) => {
        #[no_mangle]
        pub extern "C" fn $name(data: &[$W; $ND], cuts: &[$Pr; 2 * $K], alt: &[$Pr; 2], j: u32, route: u32) -> u32 {
            if j as usize >= $K || route > 1 {
                return 1;
            }
            let mut ms = [Cuts::<$Pr, $P> { c1: 1, c2: 2 }; $K];
            let mut i = 0;
            while i < $K {
                ms[i] = Cuts::<$Pr, $P> { c1: cuts[2 * i], c2: cuts[2 * i + 1] };
                if !ms[i].valid() {
                    return 1;
                }
                i += 1;
            }
            let malt = Cuts::<$Pr, $P> { c1: alt[0], c2: alt[1] };
            if !malt.valid() {
                return 1;
            }
            let mut words = [0 as $W; 8];
            let mut i = 0;
            while i < $ND {
                words[i] = data[i];
                i += 1;
            }
            let src = ArrStack::<$W, 8> { words, len: $ND };
            let mut coder = match CC::<$W, $S, $P>::from_binary(src) {
                Ok(c) => c,
                Err(_) => return 1, // too short for the heads: documented error
            };
            let mut coder_b = coder.clone();
            let mut syms = [0u8; $K];
            let mut i = 0;
            let mut decoded = 0usize;
            while i < $K {
                let ra = coder.decode_symbol(ms[i]);
                let rb = coder_b.decode_symbol(if i == j as usize { malt } else { ms[i] });
                match (ra, rb) {
                    (Ok(a), Ok(b)) => {
                        if i != j as usize && a != b {
                            return 30; // locality: other positions unaffected
                        }
                        syms[i] = a;
                        decoded += 1;
                    }
                    (Err(CoderError::Frontend(_)), Err(CoderError::Frontend(_))) => break,
                    (Err(CoderError::Backend(_)), _) | (_, Err(CoderError::Backend(_))) => return 3,
                    _ => return 31, // locality: whether/when the coder runs out of data is model independent
                }
                {
                    let (pa, _) = coder.pos();
                    let (pb, _) = coder_b.pos();
                    if pa.compressed != pb.compressed {
                        return 32;
                    }
                }
                i += 1;
            }
            if decoded < $K {
                return 1; // ran out of data: nothing more to restore in this kernel
            }
            let (prefix, suffix) = match coder.into_remainders() {
                Ok(x) => x,
                Err(_) => return 4,
            };
            // route 0: re-import the suffix only and keep the prefix apart; route 1: prefix ++ suffix
            let mut back = if route == 0 {
                suffix
            } else {
                let mut all = prefix;
                let mut i = 0;
                while i < suffix.len {
                    if all.write(suffix.words[i]).is_err() {
                        return 1;
                    }
                    i += 1;
                }
                all
            };
            let mut coder2 = match ChainCoder::<$W, $S, ArrStack<$W, 8>, ArrStack<$W, 8>, $P>::from_remainders(back) {
                Ok(c) => c,
                Err(_) => return 5,
            };
            let mut i = $K;
            while i > 0 {
                i -= 1;
                if coder2.encode_symbol(syms[i], ms[i]).is_err() {
                    return 6;
                }
            }
            let (rem2, comp2) = match coder2.into_binary() {
                Ok(x) => x,
                Err(_) => return 7,
            };
            // expected: original data = (prefix ++) rem2 ++ comp2
            let mut all = [0 as $W; 24];
            let mut n = 0usize;
            if route == 0 {
                let mut i = 0;
                while i < prefix.len {
                    all[n] = prefix.words[i];
                    n += 1;
                    i += 1;
                }
            }
            let mut i = 0;
            while i < rem2.len {
                all[n] = rem2.words[i];
                n += 1;
                i += 1;
            }
            let mut i = 0;
            while i < comp2.len {
                all[n] = comp2.words[i];
                n += 1;
                i += 1;
            }
            if n != $ND {
                return 8;
            }
            let mut i = 0;
            while i < $ND {
                if all[i] != data[i] {
                    return 9;
                }
                i += 1;
            }
            0
        }
    };
}
k_c13_rt!(k_c13_rt_k1_u8_u16_p4, u8, u16, u8, 4, 1, 4);
k_c13_rt!(k_c13_rt_k1_u8_u16_p8, u8, u16, u8, 8, 1, 4);
k_c13_rt!(k_c13_rt_k1_u8_u32_p8, u8, u32, u8, 8, 1, 6);
k_c13_rt!(k_c13_rt_k1_u16_u32_p12, u16, u32, u16, 12, 1, 4);
k_c13_rt!(k_c13_rt_k1_u32_u64_p24, u32, u64, u32, 24, 1, 4);
k_c13_rt!(k_c13_rt_k2_u8_u16_p4, u8, u16, u8, 4, 2, 4);
k_c13_rt!(k_c13_rt_k2_u8_u16_p3, u8, u16, u8, 3, 2, 4);
k_c13_rt!(k_c13_rt_k3_u8_u16_p3, u8, u16, u8, 3, 3, 4);
k_c13_rt!(k_c13_rt_k2_u8_u16_p8, u8, u16, u8, 8, 2, 5);
k_c13_rt!(k_c13_rt_k2_u16_u32_p12, u16, u32, u16, 12, 2, 4);
k_c13_rt!(k_c13_rt_k2_u32_u64_p24, u32, u64, u32, 24, 2, 4);
k_c13_rt!(k_c13_rt_k3_u8_u16_p4, u8, u16, u8, 4, 3, 4);

/// C13 `c13_heads_io`: with zero symbols decoded, every documented export/import route reproduces
/// arbitrary data; data too short for the heads is an error, never garbage.
macro_rules! k_c13_io {
    ($name:ident, $W:ty, $S:ty, $P:expr, $ND:expr) => {
        #[no_mangle]
        pub extern "C" fn $name(data: &[$W; $ND], len: u32, compressed_mode: u32) -> u32 {
            if len as usize > $ND || compressed_mode > 1 {
                return 1;
            }
            let len = len as usize;
            let mut words = [0 as $W; 8];
            let mut i = 0;
            while i < len {
                words[i] = data[i];
                i += 1;
            }
            let src = ArrStack::<$W, 8> { words, len };
            let r = if compressed_mode == 1 { CC::<$W, $S, $P>::from_compressed(src) } else { CC::<$W, $S, $P>::from_binary(src) };
            let coder = match r {
                Ok(c) => c,
                Err(CoderError::Frontend(back)) => {
                    // refused: must be because the data cannot fill the heads (or ends in zero in compressed mode)
                    let min_words = ((<$S>::BITS as usize - <$W>::BITS as usize - $P) + <$W>::BITS as usize - 1) / <$W>::BITS as usize;
                    if compressed_mode == 0 && len >= min_words + 1 {
                        return 12;
                    }
                    if compressed_mode == 1 && len >= min_words + 1 && data[len - 1] != 0 {
                        return 13;
                    }
                    return 0;
                }
                Err(_) => return 3,
            };
            if compressed_mode == 1 && data[len - 1] == 0 {
                return 14; // trailing zero word must be refused in compressed mode
            }
            // heads satisfy the invariant
            {
                let (_, h) = coder.pos();
                let (ch, rh) = h.into_raw_parts();
                if ch.get() != 1 || !inv_chain!($W, $S, $P, rh) {
                    return 20;
                }
            }
            // route A: straight back out
            let c2 = coder.clone();
            let out = if compressed_mode == 1 { c2.into_compressed() } else { c2.into_binary() };
            let (rem, comp) = match out {
                Ok(x) => x,
                Err(_) => return 4,
            };
            if rem.len != 0 || comp.len != len {
                return 5;
            }
            let mut i = 0;
            while i < len {
                if comp.words[i] != data[i] {
                    return 6;
                }
                i += 1;
            }
            // route B: via remainders and back
            let (prefix, suffix) = match coder.into_remainders() {
                Ok(x) => x,
                Err(_) => return 7,
            };
            let c3 = match CC::<$W, $S, $P>::from_remainders(suffix) {
                Ok(c) => c,
                Err(_) => return 8,
            };
            let out = if compressed_mode == 1 { c3.into_compressed() } else { c3.into_binary() };
            let (rem3, comp3) = match out {
                Ok(x) => x,
                Err(_) => return 9,
            };
            if prefix.len + rem3.len + comp3.len != len {
                return 10;
            }
            let mut n = 0usize;
            let mut i = 0;
            while i < prefix.len {
                if prefix.words[i] != data[n] {
                    return 11;
                }
                n += 1;
                i += 1;
            }
            let mut i = 0;
            while i < rem3.len {
                if rem3.words[i] != data[n] {
                    return 11;
                }
                n += 1;
                i += 1;
            }
            let mut i = 0;
            while i < comp3.len {
                if comp3.words[i] != data[n] {
                    return 11;
                }
                n += 1;
                i += 1;
            }
            0
        }
    };
}
k_c13_io!(k_c13_io_u8_u16_p4, u8, u16, 4, 4);
k_c13_io!(k_c13_io_u8_u16_p8, u8, u16, 8, 4);
k_c13_io!(k_c13_io_u8_u32_p8, u8, u32, 8, 6);
k_c13_io!(k_c13_io_u16_u32_p12, u16, u32, 12, 4);
k_c13_io!(k_c13_io_u32_u64_p24, u32, u64, 24, 4);

/// C13 `c13_precision`: from any `Inv_chain<P>` heads, changing the precision and undoing the change
/// is the identity on heads and remainder words; intermediate heads satisfy `Inv_chain<P2>`.
macro_rules! k_c13_prec {
    ($name:ident, $W:ty, $S:ty, $P:expr, $P2:expr, $first:ident, $second:ident) => {
        #[no_mangle]
        pub extern "C" fn $name(ch: $W, rh: $S, generic: u32) -> u32 {
            if ch == 0 || generic > 1 {
                return 1;
            }
            if !inv_chain!($W, $S, $P, rh) {
                return 1;
            }
            let data = ArrStack::<$W, 8> { words: [<$W>::MAX; 8], len: 8 };
            let mut coder = match CC::<$W, $S, $P>::from_binary(data) {
                Ok(c) => c,
                Err(_) => return 1,
            };
            let heads = ChainCoderHeads::<$W, $S, $P>::from_raw_parts(<$W as BitArray>::into_nonzero(ch).unwrap(), rh);
            if coder.seek((BackendPosition { compressed: 2usize, remainders: 0usize }, heads)).is_err() {
                return 1;
            }
            let mid: CC<$W, $S, $P2> = if generic == 1 {
                match coder.change_precision::<$P2>() {
                    Ok(c) => c,
                    Err(_) => return if $P2 >= $P { 2 } else { 0 },
                }
            } else {
                match coder.$first::<$P2>() {
                    Ok(c) => c,
                    Err(_) => return if $P2 >= $P { 2 } else { 0 }, // decreasing first may run out of remainders: documented error
                }
            };
            {
                let (pos, h) = mid.pos();
                let (ch2, rh2) = h.into_raw_parts();
                if ch2.get() != ch || !inv_chain!($W, $S, $P2, rh2) {
                    return 20;
                }
            }
            let back: CC<$W, $S, $P> = if generic == 1 {
                match mid.change_precision::<$P>() {
                    Ok(c) => c,
                    Err(_) => return 3,
                }
            } else {
                match mid.$second::<$P>() {
                    Ok(c) => c,
                    Err(_) => return 3,
                }
            };
            let (pos, h) = back.pos();
            let (ch2, rh2) = h.into_raw_parts();
            if ch2.get() != ch || rh2 != rh {
                return 5;
            }
            if pos.remainders != 0 || pos.compressed != 2 {
                return 6;
            }
            0
        }
    };
}
k_c13_prec!(k_c13_prec_u8_u16_p4_p8, u8, u16, 4, 8, increase_precision, decrease_precision);
k_c13_prec!(k_c13_prec_u8_u16_p8_p3, u8, u16, 8, 3, decrease_precision, increase_precision);
k_c13_prec!(k_c13_prec_u16_u32_p12_p16, u16, u32, 12, 16, increase_precision, decrease_precision);
k_c13_prec!(k_c13_prec_u16_u32_p12_p5, u16, u32, 12, 5, decrease_precision, increase_precision);
k_c13_prec!(k_c13_prec_u32_u64_p24_p32, u32, u64, 24, 32, increase_precision, decrease_precision);
k_c13_prec!(k_c13_prec_u32_u64_p24_p8, u32, u64, 24, 8, decrease_precision, increase_precision);

/// C14 `c14_chunk`: the i-th quantile handed to the model is the i-th PRECISION-bit chunk of the data
/// (words from the end, chunks from the least significant end of each word), for PRECISION | WordBits.
/// A recording model captures the quantile.
#[derive(Clone, Copy)]
pub struct Rec<'a, Pr, const P: usize> {
    pub seen: &'a core::cell::Cell<Pr>,
}
impl<'a, Pr: BitArray, const P: usize> constriction::stream::model::EntropyModel<P> for Rec<'a, Pr, P> {
    type Symbol = u8;
    type Probability = Pr;
}
impl<'a, Pr: BitArray, const P: usize> constriction::stream::model::DecoderModel<P> for Rec<'a, Pr, P> {
    fn quantile_function(&self, q: Pr) -> (u8, Pr, Pr::NonZero) {
        self.seen.set(q);
        // the whole range is one symbol short of certain: two symbols [0, 2^P - 1) and [2^P - 1, 2^P)
        let top = if P >= Pr::BITS { Pr::max_value() } else { (Pr::one() << P) - Pr::one() };
        if q < top {
            (0, Pr::zero(), top.into_nonzero().unwrap())
        } else {
            (1, top, Pr::one().into_nonzero().unwrap())
        }
    }
}

macro_rules! k_c14_chunk {
    ($name:ident, $W:ty, $S:ty, $Pr:ty, $P:expr, $K:expr, $ND:expr) => {
        #[no_mangle]
        pub extern "C" fn $name(data: &[$W; $ND]) -> u32 {
            let mut words = [0 as $W; 8];
            let mut i = 0;
            while i < $ND {
                words[i] = data[i];
                i += 1;
            }
            let src = ArrStack::<$W, 8> { words, len: $ND };
            let mut coder = match CC::<$W, $S, $P>::from_binary(src) {
                Ok(c) => c,
                Err(_) => return 1,
            };
            // the heads swallow the top words; chunks start below them
            let (pos0, _) = coder.pos();
            let avail = pos0.compressed;
            let per_word = (<$W>::BITS as usize) / $P;
            let cell = core::cell::Cell::new(0 as $Pr);
            let mut i = 0usize;
            while i < $K {
                let r = coder.decode_symbol(Rec::<$Pr, $P> { seen: &cell });
                let wi = i / per_word;
                if wi >= avail {
                    match r {
                        Err(CoderError::Frontend(_)) => return 0,
                        _ => return 16, // out of data must be reported exactly when the chunks are used up
                    }
                }
                if r.is_err() {
                    return 17;
                }
                let w = data[avail - 1 - wi];
                let shift = (i % per_word) * $P;
                let mask: $W = if $P >= <$W>::BITS as usize { <$W>::MAX } else { ((1 as $W) << $P) - 1 };
                let want = ((w >> shift) & mask) as $Pr;
                if cell.get() != want {
                    return 18;
                }
                i += 1;
            }
            0
        }
    };
}
k_c14_chunk!(k_c14_chunk_u8_u16_p4, u8, u16, u8, 4, 5, 4);
k_c14_chunk!(k_c14_chunk_u8_u16_p8, u8, u16, u8, 8, 3, 4);
k_c14_chunk!(k_c14_chunk_u8_u16_p2, u8, u16, u8, 2, 6, 4);
k_c14_chunk!(k_c14_chunk_u16_u32_p8, u16, u32, u8, 8, 4, 4);
k_c14_chunk!(k_c14_chunk_u16_u32_p16, u16, u32, u16, 16, 3, 4);
k_c14_chunk!(k_c14_chunk_u32_u64_p16, u32, u64, u16, 16, 4, 4);
k_c14_chunk!(k_c14_chunk_u32_u64_p32, u32, u64, u32, 32, 3, 4);

/// C13 `c13_step2`: two decodes then two encodes (reverse order) from ANY `Inv_chain` heads and any two data
/// words: observational form of the step obligation (does not rely on the invariant being re-established
/// between the steps; a head left exactly on a threshold by the first step is exercised by the second).
macro_rules! k_c13_step2 {
    ($name:ident, $W:ty, $S:ty, $Pr:ty, $P:expr) => {
        #[no_mangle]
        pub extern "C" fn $name(ch: $W, rh: $S, w0: $W, w1: $W, c1: $Pr, c2: $Pr, d1: $Pr, d2: $Pr) -> u32 {
            if ch == 0 {
                return 1;
            }
            if !inv_chain!($W, $S, $P, rh) {
                return 1;
            }
            let ma = Cuts::<$Pr, $P> { c1, c2 };
            let mb = Cuts::<$Pr, $P> { c1: d1, c2: d2 };
            if !ma.valid() || !mb.valid() {
                return 1;
            }
            let mut words = [<$W>::MAX; 8];
            words[0] = w0;
            words[1] = w1;
            let data = ArrStack::<$W, 8> { words, len: 8 };
            let mut coder = match CC::<$W, $S, $P>::from_binary(data) {
                Ok(c) => c,
                Err(_) => return 1,
            };
            let heads = ChainCoderHeads::<$W, $S, $P>::from_raw_parts(<$W as BitArray>::into_nonzero(ch).unwrap(), rh);
            if coder.seek((BackendPosition { compressed: 2usize, remainders: 0usize }, heads)).is_err() {
                return 1;
            }
            let sa = match coder.decode_symbol(ma) {
                Ok(s) => s,
                Err(_) => return 3,
            };
            let sb = match coder.decode_symbol(mb) {
                Ok(s) => s,
                Err(_) => return 3,
            };
            if coder.encode_symbol(sb, mb).is_err() {
                return 2;
            }
            if coder.encode_symbol(sa, ma).is_err() {
                return 2;
            }
            let (pos, h) = coder.pos();
            let (ch2, rh2) = h.into_raw_parts();
            if ch2.get() != ch || rh2 != rh {
                return 5;
            }
            if pos.compressed != 2 || pos.remainders != 0 {
                return 7;
            }
            let (comp, _rem) = match coder.into_remainders() {
                Ok(x) => x,
                Err(_) => return 9,
            };
            if comp.words[0] != w0 || comp.words[1] != w1 {
                return 8;
            }
            0
        }
    };
}
k_c13_step2!(k_c13_step2_u8_u16_p4, u8, u16, u8, 4);
k_c13_step2!(k_c13_step2_u8_u16_p8, u8, u16, u8, 8);
k_c13_step2!(k_c13_step2_u16_u32_p12, u16, u32, u16, 12);
k_c13_step2!(k_c13_step2_u32_u64_p24, u32, u64, u32, 24);
