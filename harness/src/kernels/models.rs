//! Engine-L kernels over the heap-backed (Vec / Box<[_]>) categorical models (C03, C05): every
//! representation a contiguous categorical model can be converted to answers `quantile_function`
//! (and, where it has one, `left_cumulative_and_probability`) exactly like an independent arithmetic
//! expectation computed from the fixed-point probabilities.
use constriction::stream::model::{
    ContiguousCategoricalEntropyModel, ContiguousLookupDecoderModel, DecoderModel, EncoderModel, IterableEntropyModel,
};

macro_rules! k_c05_conv {
    ($name:ident, $Pr:ty, $P:expr) => {
        #[no_mangle]
        pub extern "C" fn $name(p0: $Pr, p1: $Pr, q: $Pr, which: u32) -> u32 {
            const T: u64 = 1u64 << $P;
            if p0 == 0 || p1 == 0 || (p0 as u64) + (p1 as u64) >= T || (q as u64) >= T || which > 5 {
                return 1;
            }
            let p2 = (T - p0 as u64 - p1 as u64) as $Pr;
            let probs = [p0, p1, p2];
            // independent expectation
            let (es, el, ep) = if q < p0 {
                (0usize, 0 as $Pr, p0)
            } else if (q as u64) < p0 as u64 + p1 as u64 {
                (1usize, p0, p1)
            } else {
                (2usize, p0.wrapping_add(p1), p2)
            };
            let m = match ContiguousCategoricalEntropyModel::<$Pr, Vec<$Pr>, $P>::from_nonzero_fixed_point_probabilities(&probs[..], false) {
                Ok(m) => m,
                Err(_) => return 2,
            };
            let (s, l, p) = match which {
                0 => m.quantile_function(q),
                1 => m.to_lookup_decoder_model().quantile_function(q),
                2 => m.to_generic_decoder_model().quantile_function(q),
                3 => m.to_generic_lookup_decoder_model().quantile_function(q),
                4 => match ContiguousLookupDecoderModel::<$Pr, Vec<$Pr>, Box<[$Pr]>, $P>::from_nonzero_fixed_point_probabilities(&probs[..], false) {
                    Ok(lm) => lm.quantile_function(q),
                    Err(_) => return 3,
                },
                _ => {
                    let back = m.to_lookup_decoder_model().into_contiguous_categorical();
                    match back.left_cumulative_and_probability(es) {
                        Some((l2, p2_)) if l2 == el && p2_.get() == ep => {}
                        _ => return 4,
                    }
                    back.quantile_function(q)
                }
            };
            if s != es {
                return 5;
            }
            if l != el {
                return 6;
            }
            if p.get() != ep {
                return 7;
            }
            0
        }
    };
}
k_c05_conv!(k_c05_conv_u8_p3, u8, 3);
k_c05_conv!(k_c05_conv_u8_p4, u8, 4);
k_c05_conv!(k_c05_conv_u16_p4, u16, 4);
k_c05_conv!(k_c05_conv_u16_p3, u16, 3);
k_c05_conv!(k_c05_conv_u8_p8, u8, 8); // PRECISION == Probability::BITS: the total 2^8 wraps to 0 in the cdf

use constriction::stream::model::{NonContiguousCategoricalDecoderModel, NonContiguousLookupDecoderModel};

/// C03 / C19 `c03_heap_models`: the fixed-point constructors of the Vec/Box-backed model families on
/// UNCONSTRAINED tables (any three probabilities of the probability type, `infer_last_probability` on or
/// off, arbitrary symbols): a table that is not a valid PMF (a zero entry, or a sum different from
/// `2^PRECISION` -- resp. not below it when the last entry is inferred) must be rejected, and an accepted
/// one must decode every quantile to exactly the symbol / left cumulative / probability that the table
/// prescribes (independent arithmetic expectation).
macro_rules! k_c03_heap_models {
    ($name:ident, $Pr:ty, $P:expr) => {
        #[no_mangle]
        pub extern "C" fn $name(p0: $Pr, p1: $Pr, p2in: $Pr, infer: u8, s0: i16, s1: i16, s2: i16, q: $Pr, which: u32) -> u32 {
            const T: u64 = 1u64 << $P;
            if infer > 1 || which > 4 || (q as u64) >= T {
                return 1;
            }
            // bound: entries up to 2^PRECISION + 1 (the lookup constructors fill `probability` table slots before
            // they can reject an over-full table; larger entries only make that loop longer)
            if p0 as u64 > T + 1 || p1 as u64 > T + 1 || p2in as u64 > T + 1 {
                return 1;
            }
            let infer = infer == 1;
            let (valid, p2) = if infer {
                let ok = p0 != 0 && p1 != 0 && (p0 as u64 + p1 as u64) < T;
                (ok, if ok { (T - p0 as u64 - p1 as u64) as $Pr } else { 0 })
            } else {
                (p0 != 0 && p1 != 0 && p2in != 0 && p0 as u64 + p1 as u64 + p2in as u64 == T, p2in)
            };
            let syms = [s0, s1, s2];
            let probs_all = [p0, p1, p2in];
            let probs: &[$Pr] = if infer { &probs_all[..2] } else { &probs_all[..] };
            let (es, el, ep) = if q < p0 {
                (0usize, 0 as $Pr, p0)
            } else if (q as u64) < p0 as u64 + p1 as u64 {
                (1usize, p0, p1)
            } else {
                (2usize, p0.wrapping_add(p1), p2)
            };
            // Some((symbol index or symbol, left, prob)) when accepted, None when rejected
            let got: Option<(i32, $Pr, $Pr)> = match which {
                0 => NonContiguousCategoricalDecoderModel::<i16, $Pr, Vec<($Pr, i16)>, $P>::from_symbols_and_nonzero_fixed_point_probabilities(
                    syms.iter().cloned(),
                    probs,
                    infer,
                )
                .ok()
                .map(|m| {
                    let (s, l, p) = m.quantile_function(q);
                    (s as i32, l, p.get())
                }),
                1 => NonContiguousLookupDecoderModel::<i16, $Pr, Vec<($Pr, i16)>, Box<[$Pr]>, $P>::from_symbols_and_nonzero_fixed_point_probabilities(
                    syms.iter().cloned(),
                    probs,
                    infer,
                )
                .ok()
                .map(|m| {
                    let (s, l, p) = m.quantile_function(q);
                    (s as i32, l, p.get())
                }),
                2 => ContiguousCategoricalEntropyModel::<$Pr, Vec<$Pr>, $P>::from_nonzero_fixed_point_probabilities(probs, infer).ok().map(|m| {
                    let (s, l, p) = m.quantile_function(q);
                    (syms[if s < 3 { s } else { 0 }] as i32 + if s < 3 { 0 } else { 100000 }, l, p.get())
                }),
                3 => ContiguousLookupDecoderModel::<$Pr, Vec<$Pr>, Box<[$Pr]>, $P>::from_nonzero_fixed_point_probabilities(probs, infer).ok().map(|m| {
                    let (s, l, p) = m.quantile_function(q);
                    (syms[if s < 3 { s } else { 0 }] as i32 + if s < 3 { 0 } else { 100000 }, l, p.get())
                }),
                _ => NonContiguousCategoricalDecoderModel::<i16, $Pr, Vec<($Pr, i16)>, $P>::from_symbols_and_nonzero_fixed_point_probabilities(
                    syms.iter().cloned(),
                    probs,
                    infer,
                )
                .ok()
                .map(|m| {
                    let (s, l, p) = m.to_lookup_decoder_model().quantile_function(q);
                    (s as i32, l, p.get())
                }),
            };
            match got {
                None => {
                    if valid {
                        3 // a valid table was rejected
                    } else {
                        0
                    }
                }
                Some((s, l, p)) => {
                    if !valid {
                        return 2; // C19: an invalid table was accepted
                    }
                    if s != syms[es] as i32 {
                        return 5;
                    }
                    if l != el {
                        return 6;
                    }
                    if p != ep {
                        return 7;
                    }
                    0
                }
            }
        }
    };
}
k_c03_heap_models!(k_c03_heap_models_u8_p3, u8, 3);
k_c03_heap_models!(k_c03_heap_models_u16_p3, u16, 3);
k_c03_heap_models!(k_c03_heap_models_u8_p4, u8, 4);
