//! Engine-L kernels for the range coder (C02, C07, C09, C10, C11, C12, C18).
//! Verdict convention as in `ans.rs`: 0 held, 1 outside precondition, >= 2 violated; codes >= 20 are
//! proof-structure (invariant preservation) failures, reported separately from violations.
use crate::common::*;
use constriction::stream::queue::{EncoderSituation, RangeCoderState, RangeDecoder, RangeEncoder};
use constriction::stream::{Code, Decode, Encode};
use constriction::backends::{ReadWords, WriteWords};
use constriction::{Pos, Seek};
use core::num::NonZeroUsize;

/// `point` as `RangeDecoder::read_point` would assemble it from the first SB/WB words (zero padded).
macro_rules! initial_point {
    ($q:expr, $W:ty, $S:ty) => {{
        let mut point: $S = 0;
        let mut j = 0usize;
        while j < (<$S>::BITS / <$W>::BITS) as usize {
            let w: $W = if j < $q.len { $q.words[j] } else { 0 };
            point = (point << <$W>::BITS) | (w as $S);
            j += 1;
        }
        $q.rpos = if $q.len < j { $q.len } else { j };
        point
    }};
}

/// C02 `c02_rt_from_state` / C11 `c11_suffix` (NSUF > 0): from any raw state in the Normal situation
/// with an empty sink, encode K symbols, seal, append NSUF arbitrary words, decode with a decoder
/// started from the same state. The inductive cut of DESIGN.md: in the Normal situation no earlier
/// word can change any more, so the continuation of any long message looks exactly like this.
macro_rules! k_range_rt {
    ($name:ident, $W:ty, $S:ty, $Pr:ty, $P:expr, $K:expr, $NSUF:expr, $CHECK_EXH:expr) => {
        #[no_mangle]
        pub extern "C" fn $name(lower: $S, range: $S, cuts: &[$Pr; 2 * $K], syms: &[u8; $K], suffix: &[$W; $NSUF + 1]) -> u32 {
            const NQ: usize = 2 * $K + 4 + $NSUF;
            let st = match RangeCoderState::<$W, $S>::new(lower, range) {
                Ok(s) => s,
                Err(_) => return 1,
            };
            if lower.wrapping_add(range) <= lower {
                return 1; // not a Normal situation
            }
            let mut ms = [Cuts::<$Pr, $P> { c1: 1, c2: 2 }; $K];
            let mut i = 0;
            while i < $K {
                ms[i] = Cuts::<$Pr, $P> { c1: cuts[2 * i], c2: cuts[2 * i + 1] };
                if !ms[i].valid() || syms[i] > 2 {
                    return 1;
                }
                i += 1;
            }
            let q = ArrQueue::<$W, NQ> { words: [0; NQ], len: 0, rpos: 0 };
            let mut enc = RangeEncoder::<$W, $S, _>::from_raw_parts(q, st, EncoderSituation::Normal);
            let mut i = 0;
            while i < $K {
                if enc.encode_symbol(syms[i], ms[i]).is_err() {
                    return 2;
                }
                i += 1;
            }
            let mut q = match enc.into_compressed() {
                Ok(q) => q,
                Err(_) => return 3,
            };
            let n_own = q.len;
            if n_own > 2 * $K + 2 {
                return 12;
            }
            let mut i = 0;
            while i < $NSUF {
                if q.write(suffix[i]).is_err() {
                    return 13;
                }
                i += 1;
            }
            let point = initial_point!(q, $W, $S);
            let mut dec = match RangeDecoder::<$W, $S, _>::from_raw_parts(q, st, point) {
                Ok(d) => d,
                Err(_) => return 8,
            };
            let mut i = 0;
            while i < $K {
                let d = match dec.decode_symbol(ms[i]) {
                    Ok(d) => d,
                    Err(_) => return 9,
                };
                if d != syms[i] {
                    return 4;
                }
                i += 1;
            }
            if $CHECK_EXH && $NSUF == 0 && !dec.maybe_exhausted() {
                return 10;
            }
            0
        }
    };
}

// no suffix (C02), k = 1..3
k_range_rt!(k_c02_rt_k1_u8_u16_p4, u8, u16, u8, 4, 1, 0, true);
k_range_rt!(k_c02_rt_k1_u8_u16_p8, u8, u16, u8, 8, 1, 0, true);
k_range_rt!(k_c02_rt_k1_u8_u32_p8, u8, u32, u8, 8, 1, 0, true);
k_range_rt!(k_c02_rt_k1_u16_u32_p12, u16, u32, u16, 12, 1, 0, true);
k_range_rt!(k_c02_rt_k1_u16_u32_p16, u16, u32, u16, 16, 1, 0, true);
k_range_rt!(k_c02_rt_k1_u16_u64_p16, u16, u64, u16, 16, 1, 0, true);
k_range_rt!(k_c02_rt_k1_u32_u64_p24, u32, u64, u32, 24, 1, 0, true);
k_range_rt!(k_c02_rt_k1_u32_u64_p32, u32, u64, u32, 32, 1, 0, true);
k_range_rt!(k_c02_rt_k2_u8_u16_p4, u8, u16, u8, 4, 2, 0, true);
k_range_rt!(k_c02_rt_k2_u8_u16_p8, u8, u16, u8, 8, 2, 0, true);
k_range_rt!(k_c02_rt_k2_u8_u32_p8, u8, u32, u8, 8, 2, 0, true);
k_range_rt!(k_c02_rt_k2_u16_u32_p12, u16, u32, u16, 12, 2, 0, true);
k_range_rt!(k_c02_rt_k2_u32_u64_p24, u32, u64, u32, 24, 2, 0, true);
k_range_rt!(k_c02_rt_k3_u8_u16_p4, u8, u16, u8, 4, 3, 0, true);
k_range_rt!(k_c02_rt_k3_u8_u16_p8, u8, u16, u8, 8, 3, 0, true);

// arbitrary suffix (C11): SB/WB + K suffix words
k_range_rt!(k_c11_suffix_k1_u8_u16_p4, u8, u16, u8, 4, 1, 3, false);
k_range_rt!(k_c11_suffix_k1_u8_u16_p8, u8, u16, u8, 8, 1, 3, false);
k_range_rt!(k_c11_suffix_k1_u16_u32_p12, u16, u32, u16, 12, 1, 3, false);
k_range_rt!(k_c11_suffix_k1_u16_u32_p16, u16, u32, u16, 16, 1, 3, false);
k_range_rt!(k_c11_suffix_k1_u32_u64_p24, u32, u64, u32, 24, 1, 3, false);
k_range_rt!(k_c11_suffix_k1_u32_u64_p32, u32, u64, u32, 32, 1, 3, false);
k_range_rt!(k_c11_suffix_k2_u8_u16_p4, u8, u16, u8, 4, 2, 4, false);
k_range_rt!(k_c11_suffix_k2_u8_u16_p8, u8, u16, u8, 8, 2, 4, false);
k_range_rt!(k_c11_suffix_k2_u16_u32_p12, u16, u32, u16, 12, 2, 4, false);
k_range_rt!(k_c11_suffix_k2_u32_u64_p24, u32, u64, u32, 24, 2, 4, false);
// wide states (StateBits > 2 WordBits): known finding, see known_findings.json
k_range_rt!(k_c11_suffix_k1_u8_u32_p8, u8, u32, u8, 8, 1, 5, false);
k_range_rt!(k_c11_suffix_k1_u16_u64_p16, u16, u64, u16, 16, 1, 5, false);

/// C02 `c02_rt_fresh`: fresh encoder, K symbols, `into_compressed`, `RangeDecoder::with_backend`.
macro_rules! k_range_fresh {
    ($name:ident, $W:ty, $S:ty, $Pr:ty, $P:expr, $K:expr) => {
        #[no_mangle]
        pub extern "C" fn $name(cuts: &[$Pr; 2 * $K + 2], syms: &[u8; $K + 1], k: u32) -> u32 {
            const NQ: usize = 2 * $K + 4;
            if k as usize > $K {
                return 1;
            }
            let k = k as usize;
            let mut ms = [Cuts::<$Pr, $P> { c1: 1, c2: 2 }; $K + 1];
            let mut i = 0;
            while i < k {
                ms[i] = Cuts::<$Pr, $P> { c1: cuts[2 * i], c2: cuts[2 * i + 1] };
                if !ms[i].valid() || syms[i] > 2 {
                    return 1;
                }
                i += 1;
            }
            let mut enc = RangeEncoder::<$W, $S, _>::with_backend(ArrQueue::<$W, NQ> { words: [0; NQ], len: 0, rpos: 0 });
            let mut i = 0;
            while i < k {
                if enc.encode_symbol(syms[i], ms[i]).is_err() {
                    return 2;
                }
                i += 1;
            }
            let q = match enc.into_compressed() {
                Ok(q) => q,
                Err(_) => return 3,
            };
            if k == 0 && q.len != 0 {
                return 11; // an empty message produces no words
            }
            if q.len > k + (<$S>::BITS / <$W>::BITS) as usize {
                return 12;
            }
            let mut dec = match RangeDecoder::<$W, $S, _>::with_backend(q) {
                Ok(d) => d,
                Err(_) => return 8,
            };
            let mut i = 0;
            while i < k {
                let d = match dec.decode_symbol(ms[i]) {
                    Ok(d) => d,
                    Err(_) => return 9,
                };
                if d != syms[i] {
                    return 4;
                }
                i += 1;
            }
            if !dec.maybe_exhausted() {
                return 10;
            }
            0
        }
    };
}
k_range_fresh!(k_c02_fresh_k2_u8_u16_p4, u8, u16, u8, 4, 2);
k_range_fresh!(k_c02_fresh_k2_u8_u16_p8, u8, u16, u8, 8, 2);
k_range_fresh!(k_c02_fresh_k2_u8_u32_p8, u8, u32, u8, 8, 2);
k_range_fresh!(k_c02_fresh_k2_u16_u32_p12, u16, u32, u16, 12, 2);
k_range_fresh!(k_c02_fresh_k2_u32_u64_p24, u32, u64, u32, 24, 2);
k_range_fresh!(k_c02_fresh_k3_u8_u16_p8, u8, u16, u8, 8, 3);

/// C02 `c02_step_inv`: one `encode_symbol` from any raw state satisfying `Inv_renc` (Normal or
/// Inverted(n, w)) never panics or fails and re-establishes `Inv_renc` (proof structure: codes >= 20).
macro_rules! k_range_step_inv {
    ($name:ident, $W:ty, $S:ty, $Pr:ty, $P:expr) => {
        #[no_mangle]
        pub extern "C" fn $name(lower: $S, range: $S, inverted: u8, n: u32, w: $W, c1: $Pr, c2: $Pr, sym: u8) -> u32 {
            const NQ: usize = 8;
            let st = match RangeCoderState::<$W, $S>::new(lower, range) {
                Ok(s) => s,
                Err(_) => return 1,
            };
            let wraps = lower.wrapping_add(range) <= lower;
            let sit = if inverted != 0 {
                if !wraps || n == 0 || n > 3 || w == <$W>::MAX {
                    return 1;
                }
                EncoderSituation::Inverted(NonZeroUsize::new(n as usize).unwrap(), w)
            } else {
                if wraps {
                    return 1;
                }
                EncoderSituation::Normal
            };
            let m = Cuts::<$Pr, $P> { c1, c2 };
            if !m.valid() || sym > 2 {
                return 1;
            }
            let q = ArrQueue::<$W, NQ> { words: [0; NQ], len: 0, rpos: 0 };
            let mut enc = RangeEncoder::<$W, $S, _>::from_raw_parts(q, st, sit);
            if enc.encode_symbol(sym, m).is_err() {
                return 2;
            }
            let (q, st2, sit2) = enc.into_raw_parts();
            let (l2, r2) = (st2.lower(), st2.range().get());
            if r2 < ((1 as $S) << (<$S>::BITS - <$W>::BITS)) {
                return 20;
            }
            let wraps2 = l2.wrapping_add(r2) <= l2;
            match sit2 {
                EncoderSituation::Normal => {
                    if wraps2 {
                        return 21;
                    }
                }
                EncoderSituation::Inverted(n2, w2) => {
                    if !wraps2 || w2 == <$W>::MAX || n2.get() > n as usize + 1 {
                        return 22;
                    }
                }
            }
            // at most one word per symbol, plus the release of the held-back words
            if q.len > 1 + n as usize {
                return 23;
            }
            0
        }
    };
}
k_range_step_inv!(k_c02_step_inv_u8_u16_p4, u8, u16, u8, 4);
k_range_step_inv!(k_c02_step_inv_u8_u16_p8, u8, u16, u8, 8);
k_range_step_inv!(k_c02_step_inv_u8_u32_p8, u8, u32, u8, 8);
k_range_step_inv!(k_c02_step_inv_u16_u32_p12, u16, u32, u16, 12);
k_range_step_inv!(k_c02_step_inv_u16_u32_p16, u16, u32, u16, 16);
k_range_step_inv!(k_c02_step_inv_u16_u64_p16, u16, u64, u16, 16);
k_range_step_inv!(k_c02_step_inv_u32_u64_p24, u32, u64, u32, 24);
k_range_step_inv!(k_c02_step_inv_u32_u64_p32, u32, u64, u32, 32);

/// C10 `c10_range`: decoder over an arbitrary array of words (any length <= NW): every decode returns
/// `Ok(sym in support)` or `Err(InvalidData)`; no panic, no overflow, no `unreachable`.
macro_rules! k_c10_range {
    ($name:ident, $W:ty, $S:ty, $Pr:ty, $P:expr, $NW:expr) => {
        #[no_mangle]
        pub extern "C" fn $name(data: &[$W; $NW], len: u32, c1: $Pr, c2: $Pr, d1: $Pr, d2: $Pr) -> u32 {
            if len as usize > $NW {
                return 1;
            }
            let m1 = Cuts::<$Pr, $P> { c1, c2 };
            let m2 = Cuts::<$Pr, $P> { c1: d1, c2: d2 };
            if !m1.valid() || !m2.valid() {
                return 1;
            }
            let q = ArrQueue::<$W, $NW> { words: *data, len: len as usize, rpos: 0 };
            let mut dec = match RangeDecoder::<$W, $S, _>::with_backend(q) {
                Ok(d) => d,
                Err(_) => return 8,
            };
            match dec.decode_symbol(m1) {
                Ok(s) => {
                    if s > 2 {
                        return 10;
                    }
                }
                Err(constriction::CoderError::Frontend(_)) => return 0,
                Err(_) => return 9,
            }
            match dec.decode_symbol(m2) {
                Ok(s) => {
                    if s > 2 {
                        return 11;
                    }
                }
                Err(constriction::CoderError::Frontend(_)) => return 0,
                Err(_) => return 9,
            }
            0
        }
    };
}
k_c10_range!(k_c10_range_u8_u16_p4, u8, u16, u8, 4, 4);
k_c10_range!(k_c10_range_u8_u16_p8, u8, u16, u8, 8, 4);
k_c10_range!(k_c10_range_u8_u32_p8, u8, u32, u8, 8, 6);
k_c10_range!(k_c10_range_u16_u32_p12, u16, u32, u16, 12, 4);
k_c10_range!(k_c10_range_u16_u32_p16, u16, u32, u16, 16, 4);
k_c10_range!(k_c10_range_u32_u64_p24, u32, u64, u32, 24, 4);
k_c10_range!(k_c10_range_u32_u64_p32, u32, u64, u32, 32, 4);

/// C10 `c10_range_step`: from any raw decoder state accepted by the public `from_raw_parts`
/// (`point - lower < range`), one decode is total and preserves that relation (codes >= 20).
macro_rules! k_c10_range_step {
    ($name:ident, $W:ty, $S:ty, $Pr:ty, $P:expr) => {
        #[no_mangle]
        pub extern "C" fn $name(lower: $S, range: $S, point: $S, w0: $W, len: u32, c1: $Pr, c2: $Pr) -> u32 {
            if len > 1 {
                return 1;
            }
            let st = match RangeCoderState::<$W, $S>::new(lower, range) {
                Ok(s) => s,
                Err(_) => return 1,
            };
            let m = Cuts::<$Pr, $P> { c1, c2 };
            if !m.valid() {
                return 1;
            }
            let q = ArrQueue::<$W, 2> { words: [w0, 0], len: len as usize, rpos: 0 };
            let mut dec = match RangeDecoder::<$W, $S, _>::from_raw_parts(q, st, point) {
                Ok(d) => d,
                Err(_) => return 1,
            };
            match dec.decode_symbol(m) {
                Ok(s) => {
                    if s > 2 {
                        return 10;
                    }
                }
                Err(constriction::CoderError::Frontend(_)) => return 0,
                Err(_) => return 9,
            }
            let (_q, st2, p2) = dec.into_raw_parts();
            if st2.range().get() < ((1 as $S) << (<$S>::BITS - <$W>::BITS)) {
                return 20;
            }
            if p2.wrapping_sub(st2.lower()) >= st2.range().get() {
                return 21;
            }
            0
        }
    };
}
k_c10_range_step!(k_c10_range_step_u8_u16_p4, u8, u16, u8, 4);
k_c10_range_step!(k_c10_range_step_u8_u16_p8, u8, u16, u8, 8);
k_c10_range_step!(k_c10_range_step_u8_u32_p8, u8, u32, u8, 8);
k_c10_range_step!(k_c10_range_step_u16_u32_p12, u16, u32, u16, 12);
k_c10_range_step!(k_c10_range_step_u16_u32_p16, u16, u32, u16, 16);
k_c10_range_step!(k_c10_range_step_u32_u64_p24, u32, u64, u32, 24);
k_c10_range_step!(k_c10_range_step_u32_u64_p32, u32, u64, u32, 32);

/// C07 `c07_range_seek`: snapshots `(pos, state)` taken from the encoder at every symbol boundary
/// (also while words are held back) are handed to a seekable decoder over the finished data (the
/// library's `Cursor` over a slice); from any snapshot, in any order, twice, decoding yields exactly
/// the symbols after that point; the final snapshot leaves the decoder possibly-exhausted; positions
/// beyond the data are refused.
macro_rules! k_c07_range_seek {
    ($name:ident, $W:ty, $S:ty, $Pr:ty, $P:expr, $K:expr) => {
        #[no_mangle]
        pub extern "C" fn $name(lower: $S, range: $S, fresh: u32, cuts: &[$Pr; 2 * $K], syms: &[u8; $K], i1: u32, i2: u32) -> u32 {
            use constriction::backends::Cursor;
            const NQ: usize = 2 * $K + 4;
            if i1 as usize > $K || i2 as usize > $K || fresh > 1 {
                return 1;
            }
            let st = if fresh == 1 {
                RangeCoderState::<$W, $S>::default()
            } else {
                match RangeCoderState::<$W, $S>::new(lower, range) {
                    Ok(s) => s,
                    Err(_) => return 1,
                }
            };
            if fresh == 0 && (lower.wrapping_add(range) <= lower || range == <$S>::MAX) {
                return 1;
            }
            let mut ms = [Cuts::<$Pr, $P> { c1: 1, c2: 2 }; $K];
            let mut i = 0;
            while i < $K {
                ms[i] = Cuts::<$Pr, $P> { c1: cuts[2 * i], c2: cuts[2 * i + 1] };
                if !ms[i].valid() || syms[i] > 2 {
                    return 1;
                }
                i += 1;
            }
            let q = ArrQueue::<$W, NQ> { words: [0; NQ], len: 0, rpos: 0 };
            let mut enc = RangeEncoder::<$W, $S, _>::from_raw_parts(q, st, EncoderSituation::Normal);
            let mut snaps = [enc.pos(); $K + 1];
            let mut i = 0;
            while i < $K {
                if enc.encode_symbol(syms[i], ms[i]).is_err() {
                    return 2;
                }
                snaps[i + 1] = enc.pos();
                i += 1;
            }
            let q = match enc.into_compressed() {
                Ok(q) => q,
                Err(_) => return 3,
            };
            let data: &[$W] = &q.words[..q.len];
            let mut dec = match RangeDecoder::<$W, $S, _>::with_backend(Cursor::new_at_write_beginning(data)) {
                Ok(d) => d,
                Err(_) => return 8,
            };
            // two seeks in arbitrary order
            let mut round = 0;
            while round < 2 {
                let from = if round == 0 { i1 as usize } else { i2 as usize };
                if dec.seek(snaps[from]).is_err() {
                    return 5;
                }
                let mut i = from;
                while i < $K {
                    match dec.decode_symbol(ms[i]) {
                        Ok(d) if d == syms[i] => {}
                        Ok(_) => return 4,
                        Err(_) => return 9,
                    }
                    i += 1;
                }
                if !dec.maybe_exhausted() {
                    return 10;
                }
                round += 1;
            }
            // a position beyond the data is refused
            if dec.seek((q.len + 1, snaps[0].1)).is_ok() {
                return 6;
            }
            0
        }
    };
}
k_c07_range_seek!(k_c07_range_seek_k1_u8_u16_p4, u8, u16, u8, 4, 1);
k_c07_range_seek!(k_c07_range_seek_k1_u8_u16_p8, u8, u16, u8, 8, 1);
k_c07_range_seek!(k_c07_range_seek_k1_u16_u32_p12, u16, u32, u16, 12, 1);
k_c07_range_seek!(k_c07_range_seek_k1_u32_u64_p24, u32, u64, u32, 24, 1);
k_c07_range_seek!(k_c07_range_seek_k2_u8_u16_p4, u8, u16, u8, 4, 2);
k_c07_range_seek!(k_c07_range_seek_k2_u8_u16_p8, u8, u16, u8, 8, 2);
k_c07_range_seek!(k_c07_range_seek_k2_u16_u32_p12, u16, u32, u16, 12, 2);

/// C02 / C11 `c02_rt_from_inverted` / `c11_suffix_inverted`: the same cut as `k_range_rt`, but the encoder
/// starts in an INVERTED situation (n held-back words, first one `w`). The matching decoder has already
/// consumed the held-back words, so it starts from the same `(lower, range)` with its point window taken
/// from the words that FOLLOW the (now resolved) held-back words in the sealed output. Together with the
/// Normal-state cut this makes the round-trip argument inductive over carry situations of any length.
macro_rules! k_range_rt_inv {
    ($name:ident, $W:ty, $S:ty, $Pr:ty, $P:expr, $K:expr, $NSUF:expr) => {
        #[no_mangle]
        pub extern "C" fn $name(lower: $S, range: $S, n: u32, w: $W, cuts: &[$Pr; 2 * $K], syms: &[u8; $K], suffix: &[$W; $NSUF + 1]) -> u32 {
            const NQ: usize = 2 * $K + 8 + $NSUF;
            let st = match RangeCoderState::<$W, $S>::new(lower, range) {
                Ok(s) => s,
                Err(_) => return 1,
            };
            if lower.wrapping_add(range) > lower || n == 0 || n > 3 || w == <$W>::MAX {
                return 1;
            }
            let mut ms = [Cuts::<$Pr, $P> { c1: 1, c2: 2 }; $K];
            let mut i = 0;
            while i < $K {
                ms[i] = Cuts::<$Pr, $P> { c1: cuts[2 * i], c2: cuts[2 * i + 1] };
                if !ms[i].valid() || syms[i] > 2 {
                    return 1;
                }
                i += 1;
            }
            let q = ArrQueue::<$W, NQ> { words: [0; NQ], len: 0, rpos: 0 };
            let sit = EncoderSituation::Inverted(NonZeroUsize::new(n as usize).unwrap(), w);
            let mut enc = RangeEncoder::<$W, $S, _>::from_raw_parts(q, st, sit);
            let mut i = 0;
            while i < $K {
                if enc.encode_symbol(syms[i], ms[i]).is_err() {
                    return 2;
                }
                i += 1;
            }
            let mut q = match enc.into_compressed() {
                Ok(q) => q,
                Err(_) => return 3,
            };
            if q.len < n as usize + 1 {
                return 12; // the held-back words and at least one sealing word must have been emitted
            }
            // the held-back words resolve to (w, MAX, ...) or (w+1, 0, ...)
            let carried = q.words[0] != w;
            if carried && q.words[0] != w + 1 {
                return 14;
            }
            let mut i = 1;
            while i < n as usize {
                if q.words[i] != (if carried { 0 } else { <$W>::MAX }) {
                    return 15;
                }
                i += 1;
            }
            let mut i = 0;
            while i < $NSUF {
                if q.write(suffix[i]).is_err() {
                    return 13;
                }
                i += 1;
            }
            // decoder point: SB/WB words following the held-back words (zero padded)
            let mut point: $S = 0;
            let mut j = 0usize;
            while j < (<$S>::BITS / <$W>::BITS) as usize {
                let idx = n as usize + j;
                let wd: $W = if idx < q.len { q.words[idx] } else { 0 };
                point = (point << <$W>::BITS) | (wd as $S);
                j += 1;
            }
            q.rpos = if q.len < n as usize + j { q.len } else { n as usize + j };
            let mut dec = match RangeDecoder::<$W, $S, _>::from_raw_parts(q, st, point) {
                Ok(d) => d,
                Err(_) => return 8,
            };
            let mut i = 0;
            while i < $K {
                let d = match dec.decode_symbol(ms[i]) {
                    Ok(d) => d,
                    Err(_) => return 9,
                };
                if d != syms[i] {
                    return 4;
                }
                i += 1;
            }
            if $NSUF == 0 && !dec.maybe_exhausted() {
                return 10;
            }
            0
        }
    };
}
k_range_rt_inv!(k_c02_rt_inv_k1_u8_u16_p4, u8, u16, u8, 4, 1, 0);
k_range_rt_inv!(k_c02_rt_inv_k1_u8_u16_p8, u8, u16, u8, 8, 1, 0);
k_range_rt_inv!(k_c02_rt_inv_k1_u16_u32_p12, u16, u32, u16, 12, 1, 0);
k_range_rt_inv!(k_c02_rt_inv_k1_u16_u32_p16, u16, u32, u16, 16, 1, 0);
k_range_rt_inv!(k_c02_rt_inv_k1_u32_u64_p24, u32, u64, u32, 24, 1, 0);
k_range_rt_inv!(k_c02_rt_inv_k1_u32_u64_p32, u32, u64, u32, 32, 1, 0);
k_range_rt_inv!(k_c11_suffix_inv_k1_u8_u16_p4, u8, u16, u8, 4, 1, 3);
k_range_rt_inv!(k_c11_suffix_inv_k1_u8_u16_p8, u8, u16, u8, 8, 1, 3);
k_range_rt_inv!(k_c11_suffix_inv_k1_u16_u32_p12, u16, u32, u16, 12, 1, 3);
k_range_rt_inv!(k_c11_suffix_inv_k1_u16_u32_p16, u16, u32, u16, 16, 1, 3);
k_range_rt_inv!(k_c11_suffix_inv_k1_u32_u64_p24, u32, u64, u32, 24, 1, 3);
k_range_rt_inv!(k_c11_suffix_inv_k1_u32_u64_p32, u32, u64, u32, 32, 1, 3);

/// C07 `c07_range_seek_from_inverted`: a snapshot taken WHILE n words are held back for a pending carry
/// (any raw Inverted state, n <= 3) is handed to a seekable decoder over the finished data: decoding from
/// there yields the symbol encoded after the snapshot; the final snapshot leaves the decoder possibly exhausted.
macro_rules! k_c07_range_seek_inv {
    ($name:ident, $W:ty, $S:ty, $Pr:ty, $P:expr) => {
        #[no_mangle]
        pub extern "C" fn $name(lower: $S, range: $S, n: u32, w: $W, c1: $Pr, c2: $Pr, sym: u8, order: u32) -> u32 {
            use constriction::backends::Cursor;
            const NQ: usize = 10;
            if order > 1 {
                return 1;
            }
            let st = match RangeCoderState::<$W, $S>::new(lower, range) {
                Ok(s) => s,
                Err(_) => return 1,
            };
            if lower.wrapping_add(range) > lower || n == 0 || n > 2 || w == <$W>::MAX {
                return 1;
            }
            let m = Cuts::<$Pr, $P> { c1, c2 };
            if !m.valid() || sym > 2 {
                return 1;
            }
            let q = ArrQueue::<$W, NQ> { words: [0; NQ], len: 0, rpos: 0 };
            let sit = EncoderSituation::Inverted(NonZeroUsize::new(n as usize).unwrap(), w);
            let mut enc = RangeEncoder::<$W, $S, _>::from_raw_parts(q, st, sit);
            let p0 = enc.pos();
            if enc.encode_symbol(sym, m).is_err() {
                return 2;
            }
            let p1 = enc.pos();
            let q = match enc.into_compressed() {
                Ok(q) => q,
                Err(_) => return 3,
            };
            let data: &[$W] = &q.words[..q.len];
            let mut dec = match RangeDecoder::<$W, $S, _>::with_backend(Cursor::new_at_write_beginning(data)) {
                Ok(d) => d,
                Err(_) => return 8,
            };
            let mut round = 0;
            while round < 2 {
                let first = (round == 0) == (order == 0);
                if first {
                    if dec.seek(p0).is_err() {
                        return 5;
                    }
                    match dec.decode_symbol(m) {
                        Ok(d) if d == sym => {}
                        Ok(_) => return 4,
                        Err(_) => return 9,
                    }
                } else if dec.seek(p1).is_err() {
                    return 5;
                }
                if !dec.maybe_exhausted() {
                    return 10;
                }
                round += 1;
            }
            0
        }
    };
}
k_c07_range_seek_inv!(k_c07_range_seek_inv_u8_u16_p4, u8, u16, u8, 4);
k_c07_range_seek_inv!(k_c07_range_seek_inv_u8_u16_p8, u8, u16, u8, 8);
k_c07_range_seek_inv!(k_c07_range_seek_inv_u16_u32_p12, u16, u32, u16, 12);
k_c07_range_seek_inv!(k_c07_range_seek_inv_u32_u64_p24, u32, u64, u32, 24);

/// C18 `c18_range_sizes`: from ANY raw encoder state (Normal or Inverted(n <= 3, w)) with `pre` words already in
/// the sink: `num_words()` / `num_bits()` equal the length of what `into_compressed()` returns now, and
/// `is_empty()` holds exactly when that is nothing.
macro_rules! k_c18_range_sizes {
    ($name:ident, $W:ty, $S:ty) => {
        #[no_mangle]
        pub extern "C" fn $name(lower: $S, range: $S, inverted: u8, n: u32, w: $W, pre: u32) -> u32 {
            const NQ: usize = 10;
            if pre > 2 {
                return 1;
            }
            let st = match RangeCoderState::<$W, $S>::new(lower, range) {
                Ok(s) => s,
                Err(_) => return 1,
            };
            let wraps = lower.wrapping_add(range) <= lower;
            let sit = if inverted != 0 {
                if !wraps || n == 0 || n > 3 || w == <$W>::MAX {
                    return 1;
                }
                EncoderSituation::Inverted(NonZeroUsize::new(n as usize).unwrap(), w)
            } else {
                if wraps {
                    return 1;
                }
                EncoderSituation::Normal
            };
            let q = ArrQueue::<$W, NQ> { words: [7 as $W; NQ], len: pre as usize, rpos: 0 };
            let enc = RangeEncoder::<$W, $S, _>::from_raw_parts(q, st, sit);
            let claimed_words = enc.num_words();
            let claimed_bits = enc.num_bits();
            let claimed_empty = enc.is_empty();
            let out = match enc.into_compressed() {
                Ok(q) => q,
                Err(_) => return 3,
            };
            if claimed_words != out.len {
                return 4;
            }
            if claimed_bits != out.len * <$W>::BITS as usize {
                return 5;
            }
            if claimed_empty != (out.len == 0) {
                return 6;
            }
            0
        }
    };
}
k_c18_range_sizes!(k_c18_range_sizes_u8_u16, u8, u16);
k_c18_range_sizes!(k_c18_range_sizes_u16_u32, u16, u32);
k_c18_range_sizes!(k_c18_range_sizes_u32_u64, u32, u64);
k_c18_range_sizes!(k_c18_range_sizes_u8_u32, u8, u32);
