pub mod ans;
pub mod chain;
pub mod range;
pub mod refmodel;
pub mod models;
pub mod bridge;
