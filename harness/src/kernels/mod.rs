pub mod ans;
