pub mod ans;
pub mod chain;
pub mod range;
pub mod refmodel;
