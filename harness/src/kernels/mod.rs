pub mod ans;
pub mod range;
