//! Input source abstraction: the same harness body runs under Kani (inputs = `kani::any()`, decided by
//! CBMC over all values) and natively (inputs = the byte vectors of a solver counterexample), so that
//! every Kani counterexample is replayed against the real build before it is reported.
#![allow(unused)]

pub trait Src {
    fn u8(&mut self) -> u8;
    fn u16(&mut self) -> u16;
    fn u32(&mut self) -> u32;
    fn u64(&mut self) -> u64;
    fn usize(&mut self) -> usize;
    fn i8(&mut self) -> i8 {
        self.u8() as i8
    }
    fn i16(&mut self) -> i16 {
        self.u16() as i16
    }
    fn i32(&mut self) -> i32 {
        self.u32() as i32
    }
    fn bool(&mut self) -> bool;
    fn f32(&mut self) -> f32;
    fn f64(&mut self) -> f64;
    fn assume(&mut self, c: bool);
    fn arr_u8<const N: usize>(&mut self) -> [u8; N] {
        let mut a = [0u8; N];
        let mut i = 0;
        while i < N {
            a[i] = self.u8();
            i += 1;
        }
        a
    }
    fn arr_u16<const N: usize>(&mut self) -> [u16; N] {
        let mut a = [0u16; N];
        let mut i = 0;
        while i < N {
            a[i] = self.u16();
            i += 1;
        }
        a
    }
    fn arr_u32<const N: usize>(&mut self) -> [u32; N] {
        let mut a = [0u32; N];
        let mut i = 0;
        while i < N {
            a[i] = self.u32();
            i += 1;
        }
        a
    }
}

#[cfg(kani)]
pub struct KaniSrc;
#[cfg(kani)]
impl Src for KaniSrc {
    fn u8(&mut self) -> u8 {
        kani::any()
    }
    fn u16(&mut self) -> u16 {
        kani::any()
    }
    fn u32(&mut self) -> u32 {
        kani::any()
    }
    fn u64(&mut self) -> u64 {
        kani::any()
    }
    fn usize(&mut self) -> usize {
        kani::any()
    }
    fn bool(&mut self) -> bool {
        kani::any()
    }
    fn f32(&mut self) -> f32 {
        kani::any()
    }
    fn f64(&mut self) -> f64 {
        kani::any()
    }
    fn assume(&mut self, c: bool) {
        kani::assume(c)
    }
}

/// Native replay: values come from the byte vectors Kani's concrete playback printed, in call order.
pub struct ReplaySrc {
    pub vals: Vec<Vec<u8>>,
    pub idx: usize,
}
pub const ASSUME_FAILED: &str = "VERIF-ASSUME-FAILED";
pub const INPUT_EXHAUSTED: &str = "VERIF-INPUT-EXHAUSTED";
impl ReplaySrc {
    fn next(&mut self, n: usize) -> u64 {
        if self.idx >= self.vals.len() {
            panic!("{}", INPUT_EXHAUSTED);
        }
        let v = &self.vals[self.idx];
        self.idx += 1;
        let mut x = 0u64;
        for (i, b) in v.iter().take(n.min(8)).enumerate() {
            x |= (*b as u64) << (8 * i);
        }
        x
    }
}
impl Src for ReplaySrc {
    fn u8(&mut self) -> u8 {
        self.next(1) as u8
    }
    fn u16(&mut self) -> u16 {
        self.next(2) as u16
    }
    fn u32(&mut self) -> u32 {
        self.next(4) as u32
    }
    fn u64(&mut self) -> u64 {
        self.next(8)
    }
    fn usize(&mut self) -> usize {
        self.next(8) as usize
    }
    fn bool(&mut self) -> bool {
        self.next(1) != 0
    }
    fn f32(&mut self) -> f32 {
        f32::from_bits(self.next(4) as u32)
    }
    fn f64(&mut self) -> f64 {
        f64::from_bits(self.next(8))
    }
    fn assume(&mut self, c: bool) {
        if !c {
            panic!("{}", ASSUME_FAILED);
        }
    }
}

/// `vcover!(cond)`: reachability witness (vacuity guard) under Kani, nothing natively.
#[macro_export]
macro_rules! vcover {
    ($c:expr) => {
        #[cfg(kani)]
        kani::cover!($c);
    };
    ($c:expr, $m:expr) => {
        #[cfg(kani)]
        kani::cover!($c, $m);
    };
}

/// Declares one harness: `proofs::<file>::<name>::check` is the Kani proof, `...::body` the shared body.
#[macro_export]
macro_rules! harness {
    ($(#[$attr:meta])* $name:ident, unwind = $u:expr, |$s:ident| $body:block) => {
        pub mod $name {
            #![allow(unused)]
            use super::*;
            pub fn body<S: $crate::ksrc::Src>($s: &mut S) $body
            #[cfg(kani)]
            #[kani::proof]
            #[kani::unwind($u)]
            $(#[$attr])*
            pub fn check() {
                body(&mut $crate::ksrc::KaniSrc)
            }
        }
    };
}

/// Per-file dispatch table for the native replay binary.
#[macro_export]
macro_rules! dispatch {
    ($($name:ident),* $(,)?) => {
        pub fn dispatch(name: &str, src: &mut $crate::ksrc::ReplaySrc) -> bool {
            match name {
                $(stringify!($name) => { $name::body(src); true })*
                _ => false,
            }
        }
        pub const NAMES: &[&str] = &[$(stringify!($name)),*];
    };
}
