//! Shared vocabulary of all obligations: most-general models, heap-free back ends,
//! representation-invariant predicates. See DESIGN.md section 2.
#![allow(unused)]
use constriction::backends::*;
use constriction::stream::model::*;
use constriction::{BitArray, NonZeroBitArray, Pos, PosSeek, Queue, Seek, Stack};
use core::borrow::Borrow;

/// 3-symbol model with two symbolic cut points `0 < c1 < c2 < 2^P`.
/// Its middle symbol realises every `(cum, p)` a well-formed model can answer.
#[derive(Clone, Copy, PartialEq, Eq, Debug)]
pub struct Cuts<Pr, const P: usize> {
    pub c1: Pr,
    pub c2: Pr,
}
impl<Pr: BitArray, const P: usize> EntropyModel<P> for Cuts<Pr, P> {
    type Symbol = u8;
    type Probability = Pr;
}
impl<Pr: BitArray, const P: usize> Cuts<Pr, P> {
    #[inline(always)]
    pub fn total(&self) -> Pr {
        if P >= Pr::BITS {
            Pr::zero()
        } else {
            Pr::one() << P
        }
    }
    #[inline(always)]
    pub fn valid(&self) -> bool {
        self.c1 != Pr::zero() && self.c1 < self.c2 && (P >= Pr::BITS || self.c2 < (Pr::one() << P))
    }
    /// (left cumulative, probability) as plain integers; probability of the last symbol
    /// wraps to `2^P - c2` in `Pr` arithmetic (non-zero because `c2 != 0`).
    #[inline(always)]
    pub fn cp(&self, s: u8) -> (Pr, Pr) {
        match s {
            0 => (Pr::zero(), self.c1),
            1 => (self.c1, self.c2 - self.c1),
            _ => (self.c2, self.total().wrapping_sub(&self.c2)),
        }
    }
}
impl<Pr: BitArray, const P: usize> EncoderModel<P> for Cuts<Pr, P> {
    #[inline(always)]
    fn left_cumulative_and_probability(&self, s: impl Borrow<u8>) -> Option<(Pr, Pr::NonZero)> {
        let s = *s.borrow();
        if s > 2 {
            return None;
        }
        let (c, p) = self.cp(s);
        Some((c, p.into_nonzero()?))
    }
}
impl<Pr: BitArray, const P: usize> DecoderModel<P> for Cuts<Pr, P> {
    #[inline(always)]
    fn quantile_function(&self, q: Pr) -> (u8, Pr, Pr::NonZero) {
        // like the library's lookup and quantiser models: a decoder must only pass quantiles < 2^P
        assert!(P >= Pr::BITS || q < (Pr::one() << P));
        let s = if q < self.c1 {
            0
        } else if q < self.c2 {
            1
        } else {
            2
        };
        let (c, p) = self.cp(s);
        // `valid()` guarantees p != 0; the fallback keeps this function total and safe.
        let p = match p.into_nonzero() {
            Some(p) => p,
            None => Pr::one().into_nonzero().unwrap(),
        };
        (s, c, p)
    }
}

/// Fixed-capacity stack back end (no heap): `words[0..len]`, top at `len-1`.
#[derive(Clone, Copy, PartialEq, Eq, Debug)]
pub struct ArrStack<W: Copy, const N: usize> {
    pub words: [W; N],
    pub len: usize,
}
impl<W: Copy + Default, const N: usize> Default for ArrStack<W, N> {
    fn default() -> Self {
        ArrStack {
            words: [W::default(); N],
            len: 0,
        }
    }
}
impl<W: Copy, const N: usize> WriteWords<W> for ArrStack<W, N> {
    type WriteError = ();
    #[inline(always)]
    fn write(&mut self, w: W) -> Result<(), ()> {
        if self.len < N {
            self.words[self.len] = w;
            self.len += 1;
            Ok(())
        } else {
            Err(())
        }
    }
}
impl<W: Copy, const N: usize> ReadWords<W, Stack> for ArrStack<W, N> {
    type ReadError = core::convert::Infallible;
    #[inline(always)]
    fn read(&mut self) -> Result<Option<W>, Self::ReadError> {
        if self.len == 0 || self.len > N {
            Ok(None)
        } else {
            self.len -= 1;
            Ok(Some(self.words[self.len]))
        }
    }
}
impl<W: Copy, const N: usize> BoundedReadWords<W, Stack> for ArrStack<W, N> {
    #[inline(always)]
    fn remaining(&self) -> usize {
        self.len
    }
}

/// Fixed-capacity queue sink/source: writes append at `len`, reads consume at `rpos`.
#[derive(Clone, Copy, PartialEq, Eq, Debug)]
pub struct ArrQueue<W: Copy, const N: usize> {
    pub words: [W; N],
    pub len: usize,
    pub rpos: usize,
}
impl<W: Copy + Default, const N: usize> Default for ArrQueue<W, N> {
    fn default() -> Self {
        ArrQueue {
            words: [W::default(); N],
            len: 0,
            rpos: 0,
        }
    }
}
impl<W: Copy, const N: usize> WriteWords<W> for ArrQueue<W, N> {
    type WriteError = ();
    #[inline(always)]
    fn write(&mut self, w: W) -> Result<(), ()> {
        if self.len < N {
            self.words[self.len] = w;
            self.len += 1;
            Ok(())
        } else {
            Err(())
        }
    }
}
impl<W: Copy, const N: usize> ReadWords<W, Queue> for ArrQueue<W, N> {
    type ReadError = core::convert::Infallible;
    #[inline(always)]
    fn read(&mut self) -> Result<Option<W>, Self::ReadError> {
        if self.rpos >= self.len || self.rpos >= N {
            Ok(None)
        } else {
            self.rpos += 1;
            Ok(Some(self.words[self.rpos - 1]))
        }
    }
    #[inline(always)]
    fn maybe_exhausted(&self) -> bool {
        self.rpos >= self.len
    }
}
impl<W: Copy, const N: usize> BoundedReadWords<W, Queue> for ArrQueue<W, N> {
    #[inline(always)]
    fn remaining(&self) -> usize {
        self.len.saturating_sub(self.rpos)
    }
}
impl<W: Copy, const N: usize> PosSeek for ArrQueue<W, N> {
    type Position = usize;
}
impl<W: Copy, const N: usize> Pos for ArrQueue<W, N> {
    fn pos(&self) -> usize {
        self.len
    }
}

/// Stack sink whose `fail_at`-th write (counting from 0) and every later write fails
/// without storing anything: fault injection for C09.
#[derive(Clone, Copy, PartialEq, Eq, Debug)]
pub struct FailAt<W: Copy, const N: usize> {
    pub inner: ArrStack<W, N>,
    pub writes: usize,
    pub fail_at: usize,
}
impl<W: Copy, const N: usize> WriteWords<W> for FailAt<W, N> {
    type WriteError = ();
    #[inline(always)]
    fn write(&mut self, w: W) -> Result<(), ()> {
        if self.writes >= self.fail_at {
            return Err(());
        }
        self.writes += 1;
        self.inner.write(w)
    }
}
impl<W: Copy, const N: usize> ReadWords<W, Stack> for FailAt<W, N> {
    type ReadError = core::convert::Infallible;
    #[inline(always)]
    fn read(&mut self) -> Result<Option<W>, Self::ReadError> {
        self.inner.read()
    }
}

impl<W: Copy, const N: usize> PosSeek for ArrStack<W, N> {
    type Position = usize;
}
impl<W: Copy, const N: usize> Pos for ArrStack<W, N> {
    fn pos(&self) -> usize {
        self.len
    }
}
impl<W: Copy, const N: usize> Seek for ArrStack<W, N> {
    /// stack semantics: seeking sets the stack height (contents of the array are kept)
    fn seek(&mut self, pos: usize) -> Result<(), ()> {
        if pos <= N {
            self.len = pos;
            Ok(())
        } else {
            Err(())
        }
    }
}

impl<W: Copy, const N: usize> AsRef<[W]> for ArrQueue<W, N> {
    fn as_ref(&self) -> &[W] {
        &self.words[..if self.len <= N { self.len } else { N }]
    }
}
