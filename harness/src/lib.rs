//! Verification harness crate for `constriction` (see /verif/DESIGN.md).
//! * `common`  - most-general models, heap-free back ends, invariants
//! * `kernels` - `extern "C"` monomorphic drivers of the real generic code (engine L: LLVM-IR -> SMT)
//! * `proofs`  - harness bodies + `#[kani::proof]` wrappers (engine K: Kani / CBMC); the bodies also
//!               compile natively so that Kani counterexamples can be replayed (`bin/kreplay`)
#![allow(unused, clippy::all)]
pub mod common;
pub mod ksrc;
pub mod kernels;
pub mod proofs;
