//! Native replay of a Kani counterexample: `kreplay <file> <harness> <hex>,<hex>,...`
//! exit 0: ran to completion (not reproduced); 3: harness/library panic (reproduced);
//! 4: the inputs do not satisfy the harness assumptions / are too short (encoding problem).
use std::panic;
use vharness::ksrc::{ReplaySrc, ASSUME_FAILED, INPUT_EXHAUSTED};

fn main() {
    let a: Vec<String> = std::env::args().collect();
    if a.len() < 3 {
        eprintln!("usage: kreplay <file> <harness> [hex,hex,...]");
        std::process::exit(2);
    }
    let vals: Vec<Vec<u8>> = if a.len() > 3 && !a[3].is_empty() {
        a[3].split(',')
            .map(|h| (0..h.len() / 2).map(|i| u8::from_str_radix(&h[2 * i..2 * i + 2], 16).unwrap()).collect())
            .collect()
    } else {
        vec![]
    };
    let (file, name) = (a[1].clone(), a[2].clone());
    let r = panic::catch_unwind(move || {
        let mut src = ReplaySrc { vals, idx: 0 };
        if !vharness::proofs::dispatch(&file, &name, &mut src) {
            eprintln!("unknown harness");
            std::process::exit(2);
        }
    });
    match r {
        Ok(()) => {
            println!("REPLAY: completed without panic");
            std::process::exit(0)
        }
        Err(e) => {
            let msg = if let Some(s) = e.downcast_ref::<String>() {
                s.clone()
            } else if let Some(s) = e.downcast_ref::<&str>() {
                s.to_string()
            } else {
                "?".into()
            };
            if msg.contains(ASSUME_FAILED) || msg.contains(INPUT_EXHAUSTED) {
                println!("REPLAY: inputs rejected ({})", msg);
                std::process::exit(4)
            }
            println!("REPLAY: panic: {}", msg);
            std::process::exit(3)
        }
    }
}
