//! C06 precondition: pin the reference models embedded in the C06 kernels to the byte-exact vectors
//! published in the project's documentation (README-rust.md / src/lib.rs), using the real Gaussian
//! quantiser. For every step of the published messages the kernel (implementation vs reference from
//! the real intermediate raw state, with the real (cumulative, probability) of the symbol) must return 0,
//! and the real coders must emit exactly the published words. Exit 0 = pinned, 1 = mismatch.
use constriction::stream::model::{DefaultLeakyQuantizer, EncoderModel};
use constriction::stream::queue::{DefaultRangeEncoder, EncoderSituation};
use constriction::stream::stack::DefaultAnsCoder;
use constriction::stream::{Code, Encode};
use probability::distribution::Gaussian;
use vharness::kernels::refmodel::*;

/// cut points and symbol index of the 3-symbol model realising (cum, p) at PRECISION 24
fn cuts_for(cum: u32, p: u32) -> ([u32; 2], u8) {
    let total = 1u32 << 24;
    if cum == 0 {
        ([p, p + 1], 0)
    } else if cum + p == total {
        ([cum - 1, cum], 2)
    } else {
        ([cum, cum + p], 1)
    }
}

fn main() {
    let symbols = [23i32, -15, 78, 43, -69];
    let means = [35.2f64, -1.7, 30.1, 71.2, -75.1];
    let stds = [10.1f64, 25.3, 23.8, 35.4, 3.9];
    let quantizer = DefaultLeakyQuantizer::new(-100..=100);
    let mut bad = 0;

    // rANS (stack: encode in reverse)
    let mut ans = DefaultAnsCoder::new();
    for i in (0..5).rev() {
        let m = quantizer.quantize(Gaussian::new(means[i], stds[i]));
        let (cum, p) = m.left_cumulative_and_probability(symbols[i]).unwrap();
        let (cuts, sym) = cuts_for(cum, p.get());
        let state = Code::state(&ans);
        let bulk = ans.bulk().clone();
        let (w0, len) = if bulk.is_empty() { (0u32, 0u32) } else { (*bulk.last().unwrap(), 1u32) };
        let r = k_c06_ans_k1_u32_u64_p24(state, w0, len, &cuts, &[sym]);
        if r != 0 {
            println!("refpin: rANS reference disagrees with the implementation at step {} (verdict {})", i, r);
            bad += 1;
        }
        ans.encode_symbol(symbols[i], m).unwrap();
    }
    let got = ans.into_compressed().unwrap();
    if got != [0x421C_7EC3u32, 0x000B_8ED1] {
        println!("refpin: ANS output {:x?} differs from the published vector", got);
        bad += 1;
    }

    // range coding (queue)
    let mut enc = DefaultRangeEncoder::new();
    for i in 0..5 {
        let m = quantizer.quantize(Gaussian::new(means[i], stds[i]));
        let (cum, p) = m.left_cumulative_and_probability(symbols[i]).unwrap();
        let (cuts, sym) = cuts_for(cum, p.get());
        let (_, st, sit) = enc.clone().into_raw_parts();
        if i == 0 {
            let r = k_c06_range_k1_u32_u64_p24(&cuts, &[sym], 1);
            if r != 0 {
                println!("refpin: range reference disagrees (fresh, verdict {})", r);
                bad += 1;
            }
        } else if sit == EncoderSituation::Normal {
            let r = k_c06_range_state_k1_u32_u64_p24(st.lower(), st.range().get(), &cuts, &[sym]);
            if r != 0 {
                println!("refpin: range reference disagrees at step {} (verdict {})", i, r);
                bad += 1;
            }
        }
        enc.encode_symbol(symbols[i], m).unwrap();
    }
    let got = enc.into_compressed().unwrap();
    if got != [0x1C31EFEBu32, 0x87B430DA] {
        println!("refpin: range coder output {:x?} differs from the published vector", got);
        bad += 1;
    }
    if bad == 0 {
        println!("refpin: reference models and implementation agree along the published examples; published vectors reproduced");
    }
    std::process::exit(if bad == 0 { 0 } else { 1 });
}
