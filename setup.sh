#!/bin/bash
# Offline set-up after a fresh restore: pre-build the harness crate (kernels as LLVM IR + cdylibs, native
# replay binary) and warm one Kani target directory. Everything is rebuilt incrementally by the checks anyway.
set -e
cd "$(dirname "$0")"
export CARGO_NET_OFFLINE=true
mkdir -p .build
python3-vt - <<'PY'
import sys; sys.path.insert(0, '.')
from irsym import engine
from vlib import kani
print('kernels:', engine.build_kernels())
print('native dev:', kani.build_native('dev'))
print('native release:', kani.build_native('plainrel'))
PY
( cd harness && cargo kani --exact --harness proofs::c17::revcursor_space_left::check --target-dir ../.build/kani/s0 > ../.build/kani_warm.log 2>&1 || true )
tail -3 .build/kani_warm.log
echo setup done
