#!/usr/bin/env python3
"""Prototype: path-wise symbolic execution of rustc-emitted LLVM IR -> SMT (z3 terms).

Throw-away feasibility probe for /verif/DESIGN.md (engine L)."""
import re, sys, time, subprocess, tempfile, os, itertools
import z3

# ---------------------------------------------------------------- parsing
class Func:
    def __init__(self, name, params, rettype):
        self.name, self.params, self.rettype = name, params, rettype
        self.blocks = {}      # label -> list of instruction strings
        self.order = []

def split_top(s, sep=','):
    out, depth, cur, inq = [], 0, '', False
    for ch in s:
        if ch == '"': inq = not inq
        if not inq:
            if ch in '([{<': depth += 1
            elif ch in ')]}>': depth -= 1
            elif ch == sep and depth == 0:
                out.append(cur.strip()); cur = ''; continue
        cur += ch
    if cur.strip(): out.append(cur.strip())
    return out

LABEL_RE = re.compile(r'^("[^"]+"|[-\w.$]+):')

def parse_module(text):
    funcs, declares = {}, set()
    lines = text.split('\n')
    i = 0
    while i < len(lines):
        ln = lines[i]
        if ln.startswith('declare '):
            m = re.search(r'@("[^"]+"|[-\w.$]+)\(', ln)
            if m: declares.add(m.group(1).strip('"'))
        if ln.startswith('define '):
            m = re.search(r'@("[^"]+"|[-\w.$]+)\((.*)\)[^()]*\{\s*$', ln)
            name = m.group(1).strip('"')
            params = []
            for p in split_top(m.group(2)):
                toks = p.split()
                params.append((parse_type_prefix(p)[0], toks[-1]))
            pre = ln[:ln.index('@')]
            # return type = last type-looking token group before @
            rt = pre.replace('define', '')
            rt = re.sub(r'\b(internal|private|fastcc|noundef|zeroext|signext|nonnull|hidden|dso_local|unnamed_addr|noalias|align \d+)\b', '', rt)
            rt = re.sub(r'range\([^)]*\)', '', rt).strip()
            f = Func(name, params, rt)
            i += 1
            cur = None
            while not lines[i].startswith('}'):
                l = lines[i]
                s = l.strip()
                if s == '' or s.startswith(';'):
                    i += 1; continue
                lm = LABEL_RE.match(l)
                if lm and not l.startswith(' '):
                    cur = lm.group(1).strip('"'); f.blocks[cur] = []; f.order.append(cur)
                else:
                    if cur is None:
                        cur = '%entry0'; f.blocks[cur] = []; f.order.append(cur)
                    # multi-line switch
                    if s.startswith('switch') and s.endswith('['):
                        while not lines[i].strip().endswith(']'):
                            i += 1; s += ' ' + lines[i].strip()
                    f.blocks[cur].append(s)
                i += 1
            funcs[name] = f
        i += 1
    return funcs, declares

def parse_type_prefix(s):
    """return (type string, rest) for a string starting with a type"""
    s = s.strip()
    if s.startswith('{') or s.startswith('[') or s.startswith('<'):
        depth = 0
        for k, ch in enumerate(s):
            if ch in '{[<': depth += 1
            elif ch in '}]>':
                depth -= 1
                if depth == 0:
                    return s[:k+1], s[k+1:].strip()
    m = re.match(r'(i\d+|ptr|void|label|metadata)\b', s)
    if not m: raise ValueError('type? ' + s)
    return m.group(1), s[m.end():].strip()

def type_bits(t):
    t = t.strip()
    if t == 'ptr': return 64
    m = re.match(r'i(\d+)$', t)
    if m: return int(m.group(1))
    raise ValueError('bits of ' + t)

def type_size(t):
    t = t.strip()
    if t == 'ptr': return 8
    m = re.match(r'i(\d+)$', t)
    if m: return (int(m.group(1)) + 7) // 8
    m = re.match(r'\[(\d+) x (.*)\]$', t)
    if m: return int(m.group(1)) * type_size(m.group(2))
    raise ValueError('size of ' + t)

ATTR_WORDS = {'noundef','nonnull','zeroext','signext','noalias','readonly','writeonly','nocapture','immarg','returned','inreg','nofree'}
def strip_attrs(s):
    s = re.sub(r'range\((?:[^()]|\([^()]*\))*\)', '', s)
    s = re.sub(r'(captures|dereferenceable|dereferenceable_or_null|align)\s*\([^)]*\)', '', s)
    s = re.sub(r'\balign \d+', '', s)
    return ' '.join(w for w in s.split() if w not in ATTR_WORDS)

# ---------------------------------------------------------------- values
class Ptr:
    __slots__ = ('obj', 'off')
    def __init__(self, obj, off): self.obj, self.off = obj, off  # off: z3 BV64

class Concretize(Exception):
    def __init__(self, term, cands): self.term, self.cands = term, cands

class Outcome(Exception):
    def __init__(self, kind, info=None): self.kind, self.info = kind, info

def bv(v, w): return z3.BitVecVal(v, w)
SIMP_OPTS = dict(bv_le2extract=False, bv_extract_prop=False)
def full_simp(e): return z3.simplify(e, **SIMP_OPTS)
LITE = [True]
def simp(e):
    """constant-fold only (keeps term structure for the int-blaster) unless LITE is off"""
    if not LITE[0]: return full_simp(e)
    if z3.is_bv_value(e) or z3.is_true(e) or z3.is_false(e): return e
    if e.num_args() > 0 and all(z3.is_bv_value(c) or z3.is_true(c) or z3.is_false(c) for c in e.children()):
        return z3.simplify(e)
    # ite with constant condition / x op identity are left alone on purpose
    if z3.is_app_of(e, z3.Z3_OP_ITE):
        c = e.arg(0)
        if z3.is_true(c): return e.arg(1)
        if z3.is_false(c): return e.arg(2)
    return e

def as_bool(v):
    if z3.is_app_of(v, z3.Z3_OP_ITE) and z3.is_bv_value(v.arg(1)) and z3.is_bv_value(v.arg(2)) and v.arg(1).as_long() == 1 and v.arg(2).as_long() == 0:
        return v.arg(0)
    return v == bv(1, 1)

class Mem:
    def __init__(self):
        self.objs = {}   # id -> list of cells (z3 BV8 | ('p', Ptr, k) | None)
        self.n = 0
    def alloc(self, size, init=None):
        self.n += 1
        self.objs[self.n] = [init] * size if not isinstance(init, list) else list(init)
        return self.n
    def clone(self):
        m = Mem(); m.n = self.n; m.objs = {k: list(v) for k, v in self.objs.items()}; return m

class State:
    def __init__(self):
        self.mem = Mem(); self.pc = []; self.frames = []; self.conc = {}
    def clone(self):
        s = State(); s.mem = self.mem.clone(); s.pc = list(self.pc); s.conc = dict(self.conc)
        s.frames = [dict(fn=f['fn'], env=dict(f['env']), block=f['block'], prev=f['prev'], idx=f['idx'], dest=f['dest']) for f in self.frames]
        return s

class Executor:
    def __init__(self, funcs, declares, max_visits=12, feas_timeout_ms=300):
        self.funcs, self.declares = funcs, declares
        self.outcomes = []   # (pc list, kind, info)
        self.max_visits = max_visits
        self.feas_timeout_ms = feas_timeout_ms
        self.stats = dict(paths=0, forks=0, feas_checks=0, pruned=0)

    # ---- operand evaluation
    def val(self, st, ty, tok):
        env = st.frames[-1]['env']
        tok = tok.strip()
        if tok.startswith('%'):
            return env[tok]
        if ty == 'ptr':
            if tok == 'null': return Ptr(0, bv(0, 64))
            if tok.startswith('@'): return Ptr(('g', tok), bv(0, 64))
            if tok in ('undef', 'poison'): return Ptr(0, bv(0, 64))
            raise ValueError('ptr const ' + tok)
        if ty.startswith('{'):
            if tok in ('undef', 'poison', 'zeroinitializer'):
                return [self.val(st, t, 'undef' if tok != 'zeroinitializer' else '0') for t in split_top(ty[1:-1])]
            raise ValueError('agg const ' + tok)
        w = type_bits(ty)
        if tok == 'true': return bv(1, 1)
        if tok == 'false': return bv(0, 1)
        if tok in ('undef', 'poison'): return bv(0, w)
        if tok == 'zeroinitializer': return bv(0, w)
        return bv(int(tok), w)

    # ---- memory
    def load(self, st, p, ty):
        n = type_size(ty)
        if isinstance(p.obj, tuple) or p.obj == 0: raise Outcome('ub', 'load from global/null')
        cells = st.mem.objs[p.obj]
        off = full_simp(p.off)
        if not z3.is_bv_value(off) and off.sexpr() in st.conc: off = bv(st.conc[off.sexpr()], 64)
        if z3.is_bv_value(off):
            o = off.as_long()
            if o + n > len(cells): raise Outcome('ub', 'oob load')
            return self.assemble(cells[o:o+n], ty)
        # symbolic offset: fork over aligned candidates
        cands = [o for o in range(0, len(cells) - n + 1, n)]
        raise Concretize(off, cands)
        res = None
        for o in reversed(cands):
            try: v = self.assemble(cells[o:o+n], ty)
            except Outcome: continue
            if isinstance(v, Ptr): raise Outcome('unsupported', 'symbolic-offset ptr load')
            res = v if res is None else z3.If(off == bv(o, 64), v, res)
        if res is None: raise Outcome('ub', 'uninit load')
        st.pc.append(z3.Or([off == bv(o, 64) for o in cands]))  # else oob (checked separately)
        return res

    def assemble(self, cells, ty):
        if ty == 'ptr':
            c = cells[0]
            if isinstance(c, tuple) and c[0] == 'p': return c[1]
            raise Outcome('unsupported', 'ptr load of non-ptr bytes')
        if any(c is None for c in cells): raise Outcome('ub', 'uninit load')
        if any(isinstance(c, tuple) for c in cells): raise Outcome('unsupported', 'int load of ptr bytes')
        w = type_bits(ty)
        c0 = cells[0]
        if isinstance(c0, list) and c0[2] == 0 and c0[1].size() == w and len(cells) * 8 >= w and all(isinstance(c, list) and c[1] is c0[1] and c[2] == k for k, c in enumerate(cells)):
            return c0[1]
        bs = [self.cell_byte(c) for c in cells]
        full = z3.Concat(*reversed(bs)) if len(bs) > 1 else bs[0]
        return z3.Extract(w - 1, 0, full) if w < 8 * len(cells) else full

    def cell_byte(self, c):
        if isinstance(c, list): return z3.Extract(8*c[2]+7, 8*c[2], c[1]) if c[1].size() > 8 else c[1]
        return c

    def split(self, v, ty):
        if ty == 'ptr': return [('p', v, k) for k in range(8)]
        n = type_size(ty); w = type_bits(ty)
        if w < 8 * n: v = z3.ZeroExt(8 * n - w, v)
        if z3.is_bv_value(v): return [simp(z3.Extract(8*k+7, 8*k, v)) for k in range(n)]
        return [['v', v, k] for k in range(n)]

    def store(self, st, p, ty, v):
        if isinstance(p.obj, tuple) or p.obj == 0: raise Outcome('ub', 'store to global/null')
        cells = st.mem.objs[p.obj]
        bs = self.split(v, ty); n = len(bs)
        off = full_simp(p.off)
        if not z3.is_bv_value(off) and off.sexpr() in st.conc: off = bv(st.conc[off.sexpr()], 64)
        if z3.is_bv_value(off):
            o = off.as_long()
            if o + n > len(cells): raise Outcome('ub', 'oob store')
            cells[o:o+n] = bs; return
        cands = [o for o in range(0, len(cells) - n + 1, n)]
        raise Concretize(off, cands)
        for o in cands:
            for k in range(n):
                old = cells[o+k]
                if isinstance(old, tuple): raise Outcome('unsupported', 'sym store over ptr')
                if old is None: old = bv(0, 8)
                cells[o+k] = z3.If(off == bv(o, 64), bs[k], old)
        st.pc.append(z3.Or([off == bv(o, 64) for o in cands]))

    def divlemma(self, st, a, b):
        key = (a.sexpr(), b.sexpr())
        if not hasattr(self, 'divs'): self.divs = {}
        if key not in self.divs:
            w = a.size(); n = len(self.divs)
            q = z3.BitVec(f'divq{n}', w); r = z3.BitVec(f'divr{n}', w)
            wa, wb, wq, wr = (z3.ZeroExt(w, x) for x in (a, b, q, r))
            lem = z3.Implies(b != 0, z3.And(wq * wb + wr == wa, z3.ULT(r, b)))
            self.divs[key] = (q, r, lem)
        q, r, lem = self.divs[key]
        if not any(lem.eq(c) for c in st.pc): st.pc.append(lem)
        return q, r

    # ---- main loop
    def run(self, fname, args):
        st = State()
        f = self.funcs[fname]
        env = {}
        for (ty, nm), a in zip(f.params, args): env[nm] = a
        self.args_mem = st.mem
        st.frames.append(dict(fn=f, env=env, block=f.order[0], prev=None, idx=0, dest=None))
        work = [(st, {})]
        while work:
            st, visits = work.pop()
            try:
                self.step_path(st, visits, work)
            except Outcome as o:
                self.stats['paths'] += 1
                self.outcomes.append((st.pc, o.kind, o.info))

    def feasible(self, pc):
        self.stats['feas_checks'] += 1
        s = z3.Solver(); s.set('timeout', self.feas_timeout_ms)
        s.add(*pc)
        r = s.check()
        if r == z3.unsat: self.stats['pruned'] += 1
        return r != z3.unsat

    def step_path(self, st, visits, work):
        while True:
            fr = st.frames[-1]
            f = fr['fn']; ins = f.blocks[fr['block']][fr['idx']]
            fr['idx'] += 1
            try:
                r = self.exec_ins(st, fr, ins)
            except Concretize as c:
                fr['idx'] -= 1
                live = [k for k in c.cands if self.feasible(st.pc + [c.term == bv(k, 64)])]
                oob = self.feasible(st.pc + [z3.And([c.term != bv(k, 64) for k in c.cands])])
                if oob:
                    s3 = st.clone(); s3.pc.append(z3.And([c.term != bv(k, 64) for k in c.cands]))
                    self.stats['paths'] += 1; self.outcomes.append((s3.pc, 'ub', 'oob/unaligned symbolic access'))
                if not live: raise Outcome('infeasible')
                for k in live[1:]:
                    s2 = st.clone(); s2.pc.append(c.term == bv(k, 64)); s2.conc[c.term.sexpr()] = k
                    work.append((s2, dict(visits)))
                st.pc.append(c.term == bv(live[0], 64)); st.conc[c.term.sexpr()] = live[0]
                continue
            if r is None: continue
            kind = r[0]
            if kind == 'goto':
                self.enter(st, fr, r[1], visits)
            elif kind == 'fork':
                alts = r[1]   # list of (cond, label)
                live = []
                for cond, lab in alts:
                    c = full_simp(cond)
                    if z3.is_false(c): continue
                    if not z3.is_true(c): c = cond
                    live.append((c, lab))
                if len(live) > 1:
                    self.stats['forks'] += 1
                    live = [(c, l) for c, l in live if self.feasible(st.pc + [c])]
                if not live: raise Outcome('infeasible')
                for c, lab in live[1:]:
                    s2 = st.clone(); v2 = dict(visits)
                    if not z3.is_true(c): s2.pc.append(c)
                    try:
                        self.enter(s2, s2.frames[-1], lab, v2)
                        work.append((s2, v2))
                    except Outcome as o:
                        self.stats['paths'] += 1; self.outcomes.append((s2.pc, o.kind, o.info))
                c, lab = live[0]
                if not z3.is_true(c): st.pc.append(c)
                self.enter(st, fr, lab, visits)
            elif kind == 'ret':
                v = r[1]
                st.frames.pop()
                if not st.frames: raise Outcome('ret', v)
                caller = st.frames[-1]
                if fr['dest'] is not None: caller['env'][fr['dest']] = v

    def enter(self, st, fr, label, visits):
        key = (len(st.frames), fr['fn'].name, label)
        visits[key] = visits.get(key, 0) + 1
        if visits[key] > self.max_visits: raise Outcome('unwind-exceeded', label)
        fr['prev'] = fr['block']; fr['block'] = label; fr['idx'] = 0
        # evaluate phis simultaneously
        blk = fr['fn'].blocks[label]
        newvals = {}
        k = 0
        while k < len(blk) and ' = phi ' in blk[k]:
            m = re.match(r'(%[^ ]+|%"[^"]+") = phi (.*)', blk[k])
            dest = m.group(1); ty, rest = parse_type_prefix(m.group(2))
            found = False
            for inc in re.findall(r'\[\s*(.*?),\s*%("[^"]+"|[-\w.$]+)\s*\]', rest):
                if inc[1].strip('"') == fr['prev']:
                    newvals[dest] = self.val(st, ty, inc[0]); found = True; break
            if not found: raise ValueError('phi no incoming for ' + str(fr['prev']) + ' in ' + blk[k])
            k += 1
        fr['env'].update(newvals); fr['idx'] = k

    BINOPS = {'add': lambda a,b: a+b, 'sub': lambda a,b: a-b, 'mul': lambda a,b: a*b,
              'udiv': z3.UDiv, 'urem': z3.URem, 'sdiv': lambda a,b: a/b, 'srem': z3.SRem,
              'shl': lambda a,b: a<<b, 'lshr': z3.LShR, 'ashr': lambda a,b: a>>b,
              'and': lambda a,b: a&b, 'or': lambda a,b: a|b, 'xor': lambda a,b: a^b}
    ICMP = {'eq': lambda a,b: a==b, 'ne': lambda a,b: a!=b, 'ult': z3.ULT, 'ule': z3.ULE, 'ugt': z3.UGT, 'uge': z3.UGE,
            'slt': lambda a,b: a<b, 'sle': lambda a,b: a<=b, 'sgt': lambda a,b: a>b, 'sge': lambda a,b: a>=b}

    def exec_ins(self, st, fr, ins):
        env = fr['env']
        ins = re.sub(r',\s*![\w.]+ !\d+', '', ins)       # metadata attachments
        ins = re.sub(r',\s*align \d+', '', ins)
        dest = None
        m = re.match(r'(%"[^"]+"|%[^ ]+) = (.*)', ins)
        if m: dest, ins = m.group(1), m.group(2)
        ins = re.sub(r'^(tail |musttail |notail )', '', ins)
        op = ins.split()[0]
        rest = ins[len(op):].strip()
        if op in self.BINOPS:
            rest = re.sub(r'^((nuw|nsw|exact|disjoint)\s+)+', '', rest)
            ty, r2 = parse_type_prefix(rest)
            a, b = split_top(r2)
            va, vb = self.val(st, ty, a), self.val(st, ty, b)
            if op in ('udiv', 'urem') and DIVLEMMA[0] and not (z3.is_bv_value(simp(va)) and z3.is_bv_value(simp(vb))):
                q, r = self.divlemma(st, simp(va), simp(vb))
                env[dest] = q if op == 'udiv' else r; return
            env[dest] = simp(self.BINOPS[op](va, vb)); return
        if op == 'icmp':
            rest = re.sub(r'^samesign\s+', '', rest)
            pred, r2 = rest.split(None, 1)
            ty, r3 = parse_type_prefix(r2)
            a, b = split_top(r3)
            va, vb = self.val(st, ty, a), self.val(st, ty, b)
            if isinstance(va, Ptr):
                c = z3.And(z3.BoolVal(va.obj == vb.obj), va.off == vb.off) if pred == 'eq' else z3.Or(z3.BoolVal(va.obj != vb.obj), va.off != vb.off)
            else:
                c = self.ICMP[pred](va, vb)
            env[dest] = simp(z3.If(c, bv(1,1), bv(0,1))); return
        if op in ('zext', 'sext', 'trunc'):
            rest = re.sub(r'^((nneg|nuw|nsw)\s+)+', '', rest)
            ty, r2 = parse_type_prefix(rest)
            vtok, toty = r2.split(' to ')
            v = self.val(st, ty, vtok); w0, w1 = type_bits(ty), type_bits(toty)
            if op == 'zext': env[dest] = simp(z3.ZeroExt(w1 - w0, v))
            elif op == 'sext': env[dest] = simp(z3.SignExt(w1 - w0, v))
            else: env[dest] = simp(z3.Extract(w1 - 1, 0, v))
            return
        if op == 'select':
            parts = split_top(rest)
            c = self.val(st, 'i1', parts[0].split()[-1])
            ty, a = parse_type_prefix(parts[1]); _, b = parse_type_prefix(parts[2])
            va, vb = self.val(st, ty, a), self.val(st, ty, b)
            if isinstance(va, Ptr):
                cs = full_simp(c)
                if z3.is_bv_value(cs): env[dest] = va if cs.as_long() == 1 else vb; return
                if va.obj != vb.obj: raise Outcome('unsupported', 'select between objects')
                env[dest] = Ptr(va.obj, z3.If(c == 1, va.off, vb.off)); return
            env[dest] = simp(z3.If(as_bool(c), va, vb)); return
        if op == 'freeze':
            ty, a = parse_type_prefix(rest); env[dest] = self.val(st, ty, a); return
        if op == 'phi':
            raise ValueError('phi not at block head')
        if op == 'alloca':
            ty = split_top(rest)[0]
            env[dest] = Ptr(st.mem.alloc(type_size(ty)), bv(0, 64)); return
        if op == 'load':
            parts = split_top(rest)
            ty = parts[0]; p = self.val(st, 'ptr', parts[1].split()[-1])
            env[dest] = self.load(st, p, ty); return
        if op == 'store':
            parts = split_top(rest)
            ty, vtok = parse_type_prefix(parts[0])
            p = self.val(st, 'ptr', parts[1].split()[-1])
            self.store(st, p, ty, self.val(st, ty, vtok)); return
        if op == 'getelementptr':
            rest = re.sub(r'^((inbounds|nuw|nusw)\s+)+', '', rest)
            parts = split_top(rest)
            ety = parts[0]
            base = self.val(st, 'ptr', parts[1].split()[-1])
            off = base.off
            cur = ety
            for k, idx in enumerate(parts[2:]):
                ity, itok = parse_type_prefix(idx)
                iv = self.val(st, ity, itok)
                w = type_bits(ity)
                iv = z3.SignExt(64 - w, iv) if w < 64 else iv
                if k == 0: sz = type_size(cur)
                else:
                    mm = re.match(r'\[(\d+) x (.*)\]$', cur)
                    if not mm: raise Outcome('unsupported', 'gep into ' + cur)
                    cur = mm.group(2); sz = type_size(cur)
                off = off + iv * bv(sz, 64)
            env[dest] = Ptr(base.obj, simp(off)); return
        if op == 'extractvalue':
            parts = split_top(rest)
            ty, a = parse_type_prefix(parts[0])
            env[dest] = self.val(st, ty, a)[int(parts[1])]; return
        if op == 'insertvalue':
            parts = split_top(rest)
            ty, a = parse_type_prefix(parts[0]); ety, e = parse_type_prefix(parts[1])
            agg = list(self.val(st, ty, a)); agg[int(parts[2])] = self.val(st, ety, e)
            env[dest] = agg; return
        if op == 'br':
            if rest.startswith('label'):
                return ('goto', rest.split('%', 1)[1].strip().strip('"'))
            parts = split_top(rest)
            c = self.val(st, 'i1', parts[0].split()[-1])
            t = parts[1].split('%', 1)[1].strip().strip('"'); e = parts[2].split('%', 1)[1].strip().strip('"')
            cb = as_bool(c)
            return ('fork', [(cb, t), (z3.Not(cb), e)])
        if op == 'switch':
            head, cases = rest.split('[', 1)
            parts = split_top(head)
            ty, vtok = parse_type_prefix(parts[0]); v = self.val(st, ty, vtok)
            dflt = parts[1].split('%', 1)[1].strip().strip('"')
            alts, neg = [], []
            for cm in re.finditer(r'(i\d+) (-?\d+), label %("[^"]+"|[-\w.$]+)', cases):
                cv = bv(int(cm.group(2)), type_bits(cm.group(1)))
                alts.append((v == cv, cm.group(3).strip('"'))); neg.append(v != cv)
            alts.append((z3.And(neg) if neg else z3.BoolVal(True), dflt))
            return ('fork', alts)
        if op == 'ret':
            if rest == 'void': return ('ret', None)
            ty, a = parse_type_prefix(rest); return ('ret', self.val(st, ty, a))
        if op == 'unreachable':
            raise Outcome('unreachable', fr['fn'].name + ':' + fr['block'])
        if op == 'call':
            return self.exec_call(st, fr, dest, rest)
        raise Outcome('unsupported', ins)

    def exec_call(self, st, fr, dest, rest):
        rest = re.sub(r'^(fastcc|ccc|coldcc)\s+', '', rest)
        rest = strip_attrs(rest)
        rty, r2 = parse_type_prefix(rest)
        m = re.match(r'@("[^"]+"|[-\w.$]+)\((.*)\)(\s*#\d+)?$', r2.strip())
        if not m: raise Outcome('unsupported', 'indirect call ' + rest)
        name = m.group(1).strip('"'); argstr = m.group(2)
        args = []
        for a in split_top(argstr):
            a = strip_attrs(a)
            if a.startswith('metadata'): args.append(None); continue
            ty, tok = parse_type_prefix(a)
            args.append((ty, self.val(st, ty, tok)))
        env = fr['env']
        if name.startswith('llvm.'):
            if any(name.startswith(p) for p in ('llvm.lifetime', 'llvm.experimental.noalias', 'llvm.assume', 'llvm.dbg')): return
            mm = re.match(r'llvm\.(u|s)(add|sub|mul)\.with\.overflow\.i(\d+)', name)
            if mm:
                w = int(mm.group(3)); a, b = args[0][1], args[1][1]
                ext = z3.ZeroExt if mm.group(1) == 'u' else z3.SignExt
                wa, wb = ext(w, a), ext(w, b)
                full = {'add': wa + wb, 'sub': wa - wb, 'mul': wa * wb}[mm.group(2)]
                lo = z3.Extract(w - 1, 0, full)
                ov = full != ext(w, lo)
                env[dest] = [simp(lo), simp(z3.If(ov, bv(1,1), bv(0,1)))]; return
            mm = re.match(r'llvm\.(umin|umax|smin|smax)\.i\d+', name)
            if mm:
                a, b = args[0][1], args[1][1]
                c = {'umin': z3.ULT(a,b), 'umax': z3.UGT(a,b), 'smin': a<b, 'smax': a>b}[mm.group(1)]
                env[dest] = simp(z3.If(c, a, b)); return
            mm = re.match(r'llvm\.(ctlz|cttz)\.i(\d+)', name)
            if mm:
                w = int(mm.group(2)); a = args[0][1]
                res = bv(w, w)
                rng = range(w) if mm.group(1) == 'ctlz' else reversed(range(w))
                # ctlz: scan from LSB to MSB so the highest set bit wins
                for k in rng:
                    cnt = (w - 1 - k) if mm.group(1) == 'ctlz' else k
                    res = z3.If(z3.Extract(k, k, a) == 1, bv(cnt, w), res)
                env[dest] = simp(res); return
            mm = re.match(r'llvm\.(usub|uadd)\.sat\.i(\d+)', name)
            if mm:
                a, b = args[0][1], args[1][1]; w = int(mm.group(2))
                env[dest] = simp(z3.If(z3.ULT(a, b), bv(0, w), a - b)) if mm.group(1) == 'usub' else simp(z3.If(z3.ULT(a + b, a), bv(-1, w), a + b)); return
            mm = re.match(r'llvm\.(fshl|fshr)\.i(\d+)', name)
            if mm:
                w = int(mm.group(2)); a, b, c = args[0][1], args[1][1], args[2][1]
                sh = z3.URem(c, bv(w, w))
                cat = z3.Concat(a, b)
                if mm.group(1) == 'fshl':
                    env[dest] = simp(z3.Extract(2*w-1, w, cat << z3.ZeroExt(w, sh)))
                else:
                    env[dest] = simp(z3.Extract(w-1, 0, z3.LShR(cat, z3.ZeroExt(w, sh))))
                return
            if name.startswith('llvm.memcpy') or name.startswith('llvm.memmove'):
                d, s, n = args[0][1], args[1][1], full_simp(args[2][1])
                if not z3.is_bv_value(n): raise Outcome('unsupported', 'memcpy symbolic len')
                n = n.as_long(); so = full_simp(s.off); do = full_simp(d.off)
                if not (z3.is_bv_value(so) and z3.is_bv_value(do)): raise Outcome('unsupported', 'memcpy symbolic off')
                if isinstance(s.obj, tuple): raise Outcome('unsupported', 'memcpy from global')
                src = st.mem.objs[s.obj][so.as_long():so.as_long()+n]
                if len(src) < n or do.as_long() + n > len(st.mem.objs[d.obj]): raise Outcome('ub', 'oob memcpy')
                st.mem.objs[d.obj][do.as_long():do.as_long()+n] = src; return
            if name.startswith('llvm.memset'):
                d, v, n = args[0][1], args[1][1], full_simp(args[2][1])
                do = full_simp(d.off)
                if not (z3.is_bv_value(n) and z3.is_bv_value(do)): raise Outcome('unsupported', 'memset symbolic')
                n = n.as_long()
                if do.as_long() + n > len(st.mem.objs[d.obj]): raise Outcome('ub', 'oob memset')
                st.mem.objs[d.obj][do.as_long():do.as_long()+n] = [v] * n; return
            raise Outcome('unsupported', name)
        if name in self.funcs:
            f = self.funcs[name]
            nenv = {nm: a[1] for (ty, nm), a in zip(f.params, args)}
            st.frames.append(dict(fn=f, env=nenv, block=f.order[0], prev=None, idx=0, dest=dest))
            return
        low = name.lower()
        if 'panic' in low or 'unwrap_failed' in low or 'expect_failed' in low or 'slice_index' in low or 'handle_alloc_error' in low:
            kind = 'panic'
            for k in ('add_overflow','sub_overflow','mul_overflow','shl_overflow','shr_overflow','neg_overflow','div_by_zero','rem_by_zero','bounds_check','unwrap_failed','expect_failed'):
                if k in name: kind = 'panic:' + k
            raise Outcome(kind, fr['fn'].name[-60:] + ':' + fr['block'])
        raise Outcome('unsupported', 'call ' + name)

DIVLEMMA = [False]
# ---------------------------------------------------------------- solving
def run_solver(cmd, smt, timeout):
    t0 = time.time()
    try:
        p = subprocess.run(cmd, input=smt, capture_output=True, text=True, timeout=timeout)
        out = p.stdout.strip().split('\n')[0] if p.stdout.strip() else 'error:' + p.stderr[:200]
        if '(error' in p.stdout or 'rror' in p.stderr: out = 'error:' + (p.stdout + p.stderr)[:160].replace('\n',' ')
    except subprocess.TimeoutExpired:
        out = 'timeout'
    return out, time.time() - t0

def to_smt2(assertions):
    s = z3.Solver(); s.add(*assertions)
    txt = s.to_smt2()
    txt = re.sub(r'\b(bvudiv|bvurem|bvsdiv|bvsrem|bvsmod)_i\b', r'\1', txt)   # z3-internal names (divisor known non-zero)
    return '(set-logic ALL)\n' + txt.replace('(set-info :status unknown)', '')

SOLVERS = {
    'cvc5-iand': ['cvc5', '--lang', 'smt2', '--solve-bv-as-int=iand'],
    'z3': ['z3', '-in'],
    'cvc5': ['cvc5', '--lang', 'smt2'],
}

def portfolio(assertions, timeout=120, want_model_vars=None):
    import concurrent.futures as cf
    smt = to_smt2(assertions)
    res = {}
    with cf.ThreadPoolExecutor(max_workers=len(SOLVERS)) as ex:
        futs = {ex.submit(run_solver, cmd, smt, timeout): nm for nm, cmd in SOLVERS.items()}
        for fu in cf.as_completed(futs):
            res[futs[fu]] = fu.result()
    return res

if __name__ == '__main__':
    pass
