#![allow(unused)]
use constriction::stream::{model::*, stack::*, queue::*, chain::*, Decode, Encode, Code};
use constriction::backends::*;
use constriction::{BitArray, NonZeroBitArray, Stack, Queue};
use core::borrow::Borrow;
use num_traits::AsPrimitive;

/// A 2-symbol model with symbolic split: symbol 0 -> [0, c), symbol 1 -> [c, 2^P)
#[derive(Clone, Copy)]
pub struct Split<Pr, const P: usize> { pub c: Pr }
impl<Pr: BitArray, const P: usize> EntropyModel<P> for Split<Pr, P> { type Symbol = u8; type Probability = Pr; }
impl<Pr: BitArray, const P: usize> Split<Pr, P> {
    fn total_minus(&self, c: Pr) -> Pr { // 2^P - c in wrapping arithmetic
        let total = if P >= Pr::BITS { Pr::zero() } else { Pr::one() << P };
        total.wrapping_sub(&c)
    }
    pub fn valid(&self) -> bool {
        self.c != Pr::zero() && (P >= Pr::BITS || self.c < (Pr::one() << P))
    }
}
impl<Pr: BitArray, const P: usize> EncoderModel<P> for Split<Pr, P> {
    fn left_cumulative_and_probability(&self, s: impl Borrow<u8>) -> Option<(Pr, Pr::NonZero)> {
        match *s.borrow() {
            0 => Some((Pr::zero(), self.c.into_nonzero()?)),
            1 => Some((self.c, self.total_minus(self.c).into_nonzero()?)),
            _ => None,
        }
    }
}
impl<Pr: BitArray, const P: usize> DecoderModel<P> for Split<Pr, P> {
    fn quantile_function(&self, q: Pr) -> (u8, Pr, Pr::NonZero) {
        if q < self.c { (0, Pr::zero(), self.c.into_nonzero().unwrap()) }
        else { (1, self.c, self.total_minus(self.c).into_nonzero().unwrap()) }
    }
}


/// Fixed-capacity stack backend (no heap): words[0..len]
#[derive(Clone, Copy)]
pub struct ArrStack<W: Copy, const N: usize> { pub words: [W; N], pub len: usize }
impl<W: Copy, const N: usize> WriteWords<W> for ArrStack<W, N> {
    type WriteError = ();
    fn write(&mut self, w: W) -> Result<(), ()> { if self.len < N { self.words[self.len] = w; self.len += 1; Ok(()) } else { Err(()) } }
}
impl<W: Copy, const N: usize> ReadWords<W, Stack> for ArrStack<W, N> {
    type ReadError = core::convert::Infallible;
    fn read(&mut self) -> Result<Option<W>, Self::ReadError> { if self.len == 0 { Ok(None) } else { self.len -= 1; Ok(Some(self.words[self.len])) } }
}

/// 3-symbol model with two symbolic cut points 0 < c1 < c2 < 2^P
#[derive(Clone, Copy)]
pub struct Cuts<Pr, const P: usize> { pub c1: Pr, pub c2: Pr }
impl<Pr: BitArray, const P: usize> EntropyModel<P> for Cuts<Pr, P> { type Symbol = u8; type Probability = Pr; }
impl<Pr: BitArray, const P: usize> Cuts<Pr, P> {
    fn total(&self) -> Pr { if P >= Pr::BITS { Pr::zero() } else { Pr::one() << P } }
    pub fn valid(&self) -> bool {
        self.c1 != Pr::zero() && self.c1 < self.c2 && (P >= Pr::BITS || self.c2 < (Pr::one() << P))
    }
}
impl<Pr: BitArray, const P: usize> EncoderModel<P> for Cuts<Pr, P> {
    fn left_cumulative_and_probability(&self, s: impl Borrow<u8>) -> Option<(Pr, Pr::NonZero)> {
        match *s.borrow() {
            0 => Some((Pr::zero(), self.c1.into_nonzero()?)),
            1 => Some((self.c1, (self.c2 - self.c1).into_nonzero()?)),
            2 => Some((self.c2, self.total().wrapping_sub(&self.c2).into_nonzero()?)),
            _ => None,
        }
    }
}
impl<Pr: BitArray, const P: usize> DecoderModel<P> for Cuts<Pr, P> {
    fn quantile_function(&self, q: Pr) -> (u8, Pr, Pr::NonZero) {
        if q < self.c1 { (0, Pr::zero(), self.c1.into_nonzero().unwrap()) }
        else if q < self.c2 { (1, self.c1, (self.c2 - self.c1).into_nonzero().unwrap()) }
        else { (2, self.c2, self.total().wrapping_sub(&self.c2).into_nonzero().unwrap()) }
    }
}


/// Fixed-capacity queue sink/source
#[derive(Clone, Copy)]
pub struct ArrQueue<W: Copy, const N: usize> { pub words: [W; N], pub len: usize, pub rpos: usize }
impl<W: Copy, const N: usize> WriteWords<W> for ArrQueue<W, N> {
    type WriteError = ();
    fn write(&mut self, w: W) -> Result<(), ()> { if self.len < N { self.words[self.len] = w; self.len += 1; Ok(()) } else { Err(()) } }
}
impl<W: Copy, const N: usize> ReadWords<W, Queue> for ArrQueue<W, N> {
    type ReadError = core::convert::Infallible;
    fn read(&mut self) -> Result<Option<W>, Self::ReadError> { if self.rpos >= self.len { Ok(None) } else { self.rpos += 1; Ok(Some(self.words[self.rpos - 1])) } }
}

macro_rules! k_ans_step {
    ($name:ident, $W:ty, $S:ty, $Pr:ty, $P:expr) => {
        #[no_mangle]
        pub extern "C" fn $name(state: $S, w0: $W, len: u32, c1: $Pr, c2: $Pr, sym: u8) -> u32 {
            if len > 1 { return 1; }
            if len == 1 && state < ((1 as $S) << (<$S>::BITS - <$W>::BITS)) { return 1; }
            let m = Cuts::<$Pr, $P>{c1, c2};
            if !m.valid() || sym > 2 { return 1; }
            let mut coder = AnsCoder::<$W,$S,ArrStack<$W,2>>::from_raw_parts(ArrStack{words: [w0, 0], len: len as usize}, state);
            if coder.encode_symbol(sym, m).is_err() { return 2; }
            let d = match coder.decode_symbol(m) { Ok(d) => d, Err(_) => return 3 };
            if d != sym { return 4; }
            let (b2, s2) = coder.into_raw_parts();
            if s2 != state { return 5; }
            if b2.len != len as usize { return 6; }
            if len == 1 && b2.words[0] != w0 { return 7; }
            0
        }
    };
}
k_ans_step!(k_ans_step_u32_u64_p24, u32, u64, u32, 24);
k_ans_step!(k_ans_step_u8_u16_p8, u8, u16, u8, 8);
k_ans_step!(k_ans_step_u16_u32_p16, u16, u32, u16, 16);

// C11: from arbitrary Normal state, encode 1 symbol, seal, append suffix, decode.
macro_rules! k_range_suffix1 {
    ($name:ident, $W:ty, $S:ty, $Pr:ty, $P:expr, $NW:expr) => {
        #[no_mangle]
        pub extern "C" fn $name(lower: $S, range: $S, c1: $Pr, c2: $Pr, sym: u8, suffix: &[$W; $NW]) -> u32 {
            let st = match RangeCoderState::<$W,$S>::new(lower, range) { Ok(s) => s, Err(_) => return 1 };
            if lower.wrapping_add(range) < lower && lower.wrapping_add(range) != 0 { return 1; } // Normal situation: no wrap
            let m = Cuts::<$Pr, $P>{c1, c2};
            if !m.valid() || sym > 2 { return 1; }
            let q = ArrQueue::<$W, 12>{words: [0; 12], len: 0, rpos: 0};
            let mut enc = RangeEncoder::<$W,$S,_>::from_raw_parts(q, st, EncoderSituation::Normal);
            if enc.encode_symbol(sym, m).is_err() { return 2; }
            let mut q = match enc.into_compressed() { Ok(q) => q, Err(_) => return 3 };
            let n_own = q.len;
            let mut i = 0; while i < $NW { if q.write(suffix[i]).is_err() { return 1; } i += 1; }
            // decoder: read initial point window from the stream
            let mut point: $S = 0; let mut j = 0;
            while j < (<$S>::BITS / <$W>::BITS) as usize { point = (point << <$W>::BITS) | (q.words[j] as $S); j += 1; }
            q.rpos = j;
            let mut dec = match RangeDecoder::<$W,$S,_>::from_raw_parts(q, st, point) { Ok(d) => d, Err(_) => return 8 };
            let d = match dec.decode_symbol(m) { Ok(d) => d, Err(_) => return 9 };
            if d != sym { return 4; }
            let _ = n_own;
            0
        }
    };
}
k_range_suffix1!(k_range_suffix1_u8_u16_p8, u8, u16, u8, 8, 4);
k_range_suffix1!(k_range_suffix1_u8_u32_p8, u8, u32, u8, 8, 6);
k_range_suffix1!(k_range_suffix1_u16_u32_p12, u16, u32, u16, 12, 4);
k_range_suffix1!(k_range_suffix1_u32_u64_p24, u32, u64, u32, 24, 4);

impl<W: Copy + Default, const N: usize> Default for ArrStack<W, N> { fn default() -> Self { ArrStack{words: [W::default(); N], len: 0} } }

macro_rules! k_chain_rt1 {
    ($name:ident, $W:ty, $S:ty, $Pr:ty, $P:expr) => {
        #[no_mangle]
        pub extern "C" fn $name(d0: $W, d1: $W, d2: $W, d3: $W, c1: $Pr, c2: $Pr) -> u32 {
            use constriction::stream::chain::ChainCoder;
            let m = Cuts::<$Pr, $P>{c1, c2};
            if !m.valid() { return 1; }
            let data = ArrStack::<$W, 8>{words: [d0, d1, d2, d3, 0, 0, 0, 0], len: 4};
            let mut coder = match ChainCoder::<$W, $S, ArrStack<$W,8>, ArrStack<$W,8>, $P>::from_binary(data) { Ok(c) => c, Err(_) => return 1 };
            let sym = match coder.decode_symbol(m) { Ok(s) => s, Err(_) => return 1 };
            let (prefix, suffix) = match coder.into_remainders() { Ok(x) => x, Err(_) => return 2 };
            let mut coder2 = match ChainCoder::<$W, $S, ArrStack<$W,8>, ArrStack<$W,8>, $P>::from_remainders(suffix) { Ok(c) => c, Err(_) => return 3 };
            if coder2.encode_symbol(sym, m).is_err() { return 4; }
            let (p2, s2) = match coder2.into_binary() { Ok(x) => x, Err(_) => return 5 };
            // prefix ++ p2 ++ s2 == data
            let mut all = [0 as $W; 24]; let mut n = 0usize;
            let mut i = 0; while i < prefix.len { all[n] = prefix.words[i]; n += 1; i += 1; }
            let mut i = 0; while i < p2.len { all[n] = p2.words[i]; n += 1; i += 1; }
            let mut i = 0; while i < s2.len { all[n] = s2.words[i]; n += 1; i += 1; }
            if n != 4 { return 6; }
            if all[0] != d0 || all[1] != d1 || all[2] != d2 || all[3] != d3 { return 7; }
            0
        }
    };
}
k_chain_rt1!(k_chain_rt1_u8_u16_p4, u8, u16, u8, 4);
k_chain_rt1!(k_chain_rt1_u8_u16_p8, u8, u16, u8, 8);
k_chain_rt1!(k_chain_rt1_u32_u64_p24, u32, u64, u32, 24);
