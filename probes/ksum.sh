#!/bin/bash
for f in "$@"; do
  h=$(basename $f .log)
  v=$(grep -m1 "^VERIFICATION" $f | tr -d '\n')
  t=$(grep -m1 "Verification Time" $f | sed 's/Verification Time: //')
  e=$(grep -m1 "^exit" $f)
  fails=$(grep -B1 -A3 "Status: FAILURE" $f | grep "Description" | head -3 | tr '\n' ';')
  err=$(grep -m2 "^error" $f | tr '\n' ';')
  echo "$h | $v | $t | $e | $fails $err"
done
