#![allow(unused)]
use constriction::stream::{model::*, stack::*, queue::*, chain::*, Decode, Encode, Code};
use constriction::backends::*;
use constriction::{BitArray, NonZeroBitArray, Stack, Queue};
use core::borrow::Borrow;
use num_traits::AsPrimitive;

/// A 2-symbol model with symbolic split: symbol 0 -> [0, c), symbol 1 -> [c, 2^P)
#[derive(Clone, Copy)]
pub struct Split<Pr, const P: usize> { pub c: Pr }
impl<Pr: BitArray, const P: usize> EntropyModel<P> for Split<Pr, P> { type Symbol = u8; type Probability = Pr; }
impl<Pr: BitArray, const P: usize> Split<Pr, P> {
    fn total_minus(&self, c: Pr) -> Pr { // 2^P - c in wrapping arithmetic
        let total = if P >= Pr::BITS { Pr::zero() } else { Pr::one() << P };
        total.wrapping_sub(&c)
    }
    pub fn valid(&self) -> bool {
        self.c != Pr::zero() && (P >= Pr::BITS || self.c < (Pr::one() << P))
    }
}
impl<Pr: BitArray, const P: usize> EncoderModel<P> for Split<Pr, P> {
    fn left_cumulative_and_probability(&self, s: impl Borrow<u8>) -> Option<(Pr, Pr::NonZero)> {
        match *s.borrow() {
            0 => Some((Pr::zero(), self.c.into_nonzero()?)),
            1 => Some((self.c, self.total_minus(self.c).into_nonzero()?)),
            _ => None,
        }
    }
}
impl<Pr: BitArray, const P: usize> DecoderModel<P> for Split<Pr, P> {
    fn quantile_function(&self, q: Pr) -> (u8, Pr, Pr::NonZero) {
        if q < self.c { (0, Pr::zero(), self.c.into_nonzero().unwrap()) }
        else { (1, self.c, self.total_minus(self.c).into_nonzero().unwrap()) }
    }
}


/// Fixed-capacity stack backend (no heap): words[0..len]
#[derive(Clone, Copy)]
pub struct ArrStack<W: Copy, const N: usize> { pub words: [W; N], pub len: usize }
impl<W: Copy, const N: usize> WriteWords<W> for ArrStack<W, N> {
    type WriteError = ();
    fn write(&mut self, w: W) -> Result<(), ()> { if self.len < N { self.words[self.len] = w; self.len += 1; Ok(()) } else { Err(()) } }
}
impl<W: Copy, const N: usize> ReadWords<W, Stack> for ArrStack<W, N> {
    type ReadError = core::convert::Infallible;
    fn read(&mut self) -> Result<Option<W>, Self::ReadError> { if self.len == 0 { Ok(None) } else { self.len -= 1; Ok(Some(self.words[self.len])) } }
}

/// 3-symbol model with two symbolic cut points 0 < c1 < c2 < 2^P
#[derive(Clone, Copy)]
pub struct Cuts<Pr, const P: usize> { pub c1: Pr, pub c2: Pr }
impl<Pr: BitArray, const P: usize> EntropyModel<P> for Cuts<Pr, P> { type Symbol = u8; type Probability = Pr; }
impl<Pr: BitArray, const P: usize> Cuts<Pr, P> {
    fn total(&self) -> Pr { if P >= Pr::BITS { Pr::zero() } else { Pr::one() << P } }
    pub fn valid(&self) -> bool {
        self.c1 != Pr::zero() && self.c1 < self.c2 && (P >= Pr::BITS || self.c2 < (Pr::one() << P))
    }
}
impl<Pr: BitArray, const P: usize> EncoderModel<P> for Cuts<Pr, P> {
    fn left_cumulative_and_probability(&self, s: impl Borrow<u8>) -> Option<(Pr, Pr::NonZero)> {
        match *s.borrow() {
            0 => Some((Pr::zero(), self.c1.into_nonzero()?)),
            1 => Some((self.c1, (self.c2 - self.c1).into_nonzero()?)),
            2 => Some((self.c2, self.total().wrapping_sub(&self.c2).into_nonzero()?)),
            _ => None,
        }
    }
}
impl<Pr: BitArray, const P: usize> DecoderModel<P> for Cuts<Pr, P> {
    fn quantile_function(&self, q: Pr) -> (u8, Pr, Pr::NonZero) {
        if q < self.c1 { (0, Pr::zero(), self.c1.into_nonzero().unwrap()) }
        else if q < self.c2 { (1, self.c1, (self.c2 - self.c1).into_nonzero().unwrap()) }
        else { (2, self.c2, self.total().wrapping_sub(&self.c2).into_nonzero().unwrap()) }
    }
}

#[cfg(kani)]
mod proofs {
    use super::*;

    macro_rules! ans_step {
        ($name:ident, $W:ty, $S:ty, $Pr:ty, $P:expr) => {
            #[kani::proof]
            #[kani::unwind(4)]
            fn $name() {
                let state: $S = kani::any();
                let w0: $W = kani::any();
                let bulk_len: usize = kani::any();
                kani::assume(bulk_len <= 1);
                let mut bulk = Vec::new();
                if bulk_len == 1 { bulk.push(w0); }
                kani::assume(bulk_len == 0 || state >= 1 << (<$S>::BITS - <$W>::BITS));
                let m = Split::<$Pr, $P>{c: kani::any()};
                kani::assume(m.valid());
                let sym: u8 = kani::any();
                kani::assume(sym <= 1);
                let mut coder = AnsCoder::<$W,$S,Vec<$W>>::from_raw_parts(bulk, state);
                assert!(coder.encode_symbol(sym, m).is_ok());
                let d = match coder.decode_symbol(m) { Ok(d) => d, Err(_) => unreachable!() };
                assert_eq!(d, sym);
                let (b2, s2) = coder.into_raw_parts();
                assert_eq!(s2, state);
                assert_eq!(b2.len(), bulk_len);
                if bulk_len == 1 { assert_eq!(b2[0], w0); }
            }
        };
    }
    ans_step!(ans_u8_u16_p8, u8, u16, u8, 8);
    ans_step!(ans_u8_u16_p5, u8, u16, u8, 5);
    ans_step!(ans_u8_u32_p8, u8, u32, u8, 8);
    ans_step!(ans_u16_u32_p12, u16, u32, u16, 12);
    ans_step!(ans_u16_u32_p16, u16, u32, u16, 16);
    ans_step!(ans_u32_u64_p24, u32, u64, u32, 24);


    macro_rules! ans_step_arr {
        ($name:ident, $W:ty, $S:ty, $Pr:ty, $P:expr) => {
            #[kani::proof]
            #[kani::unwind(4)]
            fn $name() {
                let state: $S = kani::any();
                let words: [$W; 2] = kani::any();
                let len: usize = kani::any();
                kani::assume(len <= 1);
                kani::assume(len == 0 || state >= 1 << (<$S>::BITS - <$W>::BITS));
                let m = Cuts::<$Pr, $P>{c1: kani::any(), c2: kani::any()};
                kani::assume(m.valid());
                let sym: u8 = kani::any();
                kani::assume(sym <= 2);
                let mut coder = AnsCoder::<$W,$S,ArrStack<$W,2>>::from_raw_parts(ArrStack{words, len}, state);
                assert!(coder.encode_symbol(sym, m).is_ok());
                let d = match coder.decode_symbol(m) { Ok(d) => d, Err(_) => unreachable!() };
                assert_eq!(d, sym);
                let (b2, s2) = coder.into_raw_parts();
                assert_eq!(s2, state);
                assert_eq!(b2.len, len);
                if len == 1 { assert_eq!(b2.words[0], words[0]); }
            }
        };
    }
    ans_step_arr!(arr_ans_u8_u16_p8, u8, u16, u8, 8);
    ans_step_arr!(arr_ans_u8_u32_p8, u8, u32, u8, 8);
    ans_step_arr!(arr_ans_u16_u32_p12, u16, u32, u16, 12);

    // concrete-probability sweep at full width
    #[kani::proof]
    #[kani::unwind(4)]
    fn arr_ans_u32_u64_p24_concrete_p() {
        const PS: [u32; 4] = [1, 3, 12345, (1<<24) - 1];
        let i: usize = kani::any();
        kani::assume(i < 4);
        let p = PS[i];
        let c1: u32 = kani::any();
        kani::assume(c1 >= 1 && c1 < (1<<24) - p);
        let m = Cuts::<u32, 24>{c1, c2: c1 + p};
        kani::assume(m.valid());
        let state: u64 = kani::any();
        let words: [u32; 2] = kani::any();
        let len: usize = kani::any();
        kani::assume(len <= 1);
        kani::assume(len == 0 || state >= 1 << 32);
        let mut coder = AnsCoder::<u32,u64,ArrStack<u32,2>>::from_raw_parts(ArrStack{words, len}, state);
        assert!(coder.encode_symbol(1u8, m).is_ok());
        let d = match coder.decode_symbol(m) { Ok(d) => d, Err(_) => unreachable!() };
        assert_eq!(d, 1);
        let (b2, s2) = coder.into_raw_parts();
        assert_eq!(s2, state);
        assert_eq!(b2.len, len);
        if len == 1 { assert_eq!(b2.words[0], words[0]); }
    }

    // Range coder: k symbols, seal, append suffix, decode
    macro_rules! range_rt {
        ($name:ident, $W:ty, $S:ty, $Pr:ty, $P:expr, $K:expr, $SUF:expr) => {
            #[kani::proof]
            #[kani::unwind(8)]
            fn $name() {
                let mut enc = RangeEncoder::<$W,$S>::new();
                let mut models = [Split::<$Pr,$P>{c: 1}; $K];
                let mut syms = [0u8; $K];
                for i in 0..$K {
                    models[i] = Split::<$Pr,$P>{c: kani::any()};
                    kani::assume(models[i].valid());
                    syms[i] = kani::any();
                    kani::assume(syms[i] <= 1);
                    assert!(enc.encode_symbol(syms[i], models[i]).is_ok());
                }
                let mut compressed = match enc.into_compressed() { Ok(c) => c, Err(_) => unreachable!() };
                for _ in 0..$SUF { compressed.push(kani::any()); }
                let mut dec = match RangeDecoder::<$W,$S,_>::from_compressed(compressed) { Ok(d) => d, Err(_) => unreachable!() };
                for i in 0..$K {
                    let d = dec.decode_symbol(models[i]);
                    assert!(d.is_ok());
                    assert_eq!(d.ok().unwrap(), syms[i]);
                }
            }
        };
    }
    range_rt!(range_u8_u16_p8_k2, u8, u16, u8, 8, 2, 0);
    range_rt!(range_u8_u16_p8_k3, u8, u16, u8, 8, 3, 0);
    range_rt!(range_u8_u16_p8_k2_suf, u8, u16, u8, 8, 2, 2);
    range_rt!(range_u8_u32_p8_k2_suf, u8, u32, u8, 8, 2, 4);
    range_rt!(range_u8_u32_p8_k3_suf, u8, u32, u8, 8, 3, 4);

    // ---------- float / heap probes ----------
    use constriction::symbol::{StackCoder, QueueEncoder, WriteBitStream, ReadBitStream, EncoderCodebook, DecoderCodebook};
    use constriction::symbol::huffman::{EncoderHuffmanTree, DecoderHuffmanTree};
    use constriction::stream::model::{Distribution, Inverse};

    fn check_c03_contiguous<M, const P: usize>(m: &M, n: usize)
    where M: EncoderModel<P, Symbol = usize, Probability = u8> + DecoderModel<P, Symbol = usize, Probability = u8> {
        let total: u16 = 1 << P;
        let mut acc: u16 = 0;
        let mut i = 0;
        while i < n {
            let (c, p) = m.left_cumulative_and_probability(i).unwrap();
            assert!(c as u16 == acc);
            assert!((p.get() as u16) < total);
            acc += p.get() as u16;
            i += 1;
        }
        assert!(acc == total);
        assert!(m.left_cumulative_and_probability(n).is_none());
        let q: u8 = kani::any();
        kani::assume((q as u16) < total);
        let (s, c, p) = m.quantile_function(q);
        assert!(s < n);
        assert!(c <= q && (q as u16) < c as u16 + p.get() as u16);
        let (c2, p2) = m.left_cumulative_and_probability(s).unwrap();
        assert!(c2 == c && p2 == p);
    }

    #[kani::proof]
    #[kani::unwind(6)]
    fn cat_fast_f32_u8_p8_n3() {
        let probs: [f32; 3] = kani::any();
        kani::assume(probs[0] >= 0.0 && probs[1] >= 0.0 && probs[2] >= 0.0);
        kani::assume(probs[0].is_finite() && probs[1].is_finite() && probs[2].is_finite());
        if let Ok(m) = ContiguousCategoricalEntropyModel::<u8, _, 8>::from_floating_point_probabilities_fast(&probs, None) {
            check_c03_contiguous::<_, 8>(&m, 3);
        }
    }

    #[kani::proof]
    #[kani::unwind(6)]
    fn cat_fast_f32_u8_p8_n3_anyinput() {
        let probs: [f32; 3] = kani::any();
        if let Ok(m) = ContiguousCategoricalEntropyModel::<u8, _, 8>::from_floating_point_probabilities_fast(&probs, None) {
            check_c03_contiguous::<_, 8>(&m, 3);
        }
    }

    #[kani::proof]
    #[kani::unwind(6)]
    fn cat_fixed_u8_p8_n3() {
        let probs: [u8; 3] = kani::any();
        let n: usize = kani::any();
        kani::assume(n <= 3);
        let infer: bool = kani::any();
        if let Ok(m) = ContiguousCategoricalEntropyModel::<u8, _, 8>::from_nonzero_fixed_point_probabilities(&probs[..n], infer) {
            let k = m.support_size();
            assert!(k >= 2);
            check_c03_contiguous::<_, 8>(&m, k);
        }
    }

    // quantizer with stubbed distribution: cdf given by table at half-integers
    #[derive(Clone, Copy)]
    struct TableDist { v: [f64; 4], inv: f64 }
    impl Distribution for TableDist {
        type Value = f64;
        fn distribution(&self, x: f64) -> f64 {
            // support 0..=3 -> evaluated at 0.5, 1.5, 2.5 (and -0.5 / 3.5 never by design)
            if x < 0.0 { 0.0 } else if x < 1.0 { self.v[0] } else if x < 2.0 { self.v[1] } else if x < 3.0 { self.v[2] } else { self.v[3] }
        }
    }
    impl Inverse for TableDist { fn inverse(&self, _p: f64) -> f64 { self.inv } }

    #[kani::proof]
    #[kani::unwind(12)]
    fn quant_u8_p8_sup4() {
        let v: [f64; 4] = kani::any();
        kani::assume(v[0] >= 0.0 && v[0] <= v[1] && v[1] <= v[2] && v[2] <= v[3] && v[3] <= 1.0);
        let inv: f64 = kani::any();
        kani::assume(inv.is_finite());
        let quantizer = LeakyQuantizer::<f64, u8, u8, 8>::new(0..=3);
        let m = quantizer.quantize(TableDist{v, inv});
        let mut acc: u16 = 0;
        let mut s: u8 = 0;
        while s <= 3 {
            let (c, p) = m.left_cumulative_and_probability(s).unwrap();
            assert!(c as u16 == acc);
            acc += p.get() as u16;
            s += 1;
        }
        assert!(acc == 256);
        let q: u8 = kani::any();
        let (s, c, p) = m.quantile_function(q);
        assert!(s <= 3);
        assert!(c <= q && (q as u16) < c as u16 + p.get() as u16);
        let (c2, p2) = m.left_cumulative_and_probability(s).unwrap();
        assert!(c2 == c && p2 == p);
    }

    #[kani::proof]
    #[kani::unwind(8)]
    fn huffman_n3() {
        let w: [u8; 3] = kani::any();
        let enc = EncoderHuffmanTree::from_probabilities::<u16, _>(w.iter().map(|&x| x as u16));
        let dec = DecoderHuffmanTree::from_probabilities::<u16, _>(w.iter().map(|&x| x as u16));
        let s: usize = kani::any();
        kani::assume(s < 3);
        let mut bits = [false; 4];
        let mut n = 0usize;
        let r = enc.encode_symbol_suffix(s, |b| { if n < 4 { bits[n] = b; } n += 1; Result::<(), ()>::Ok(()) });
        assert!(r.is_ok());
        assert!(n >= 1 && n <= 2);
        // decode reversed (prefix order)
        let mut i = n;
        let d = dec.decode_symbol(core::iter::from_fn(|| { if i == 0 { None } else { i -= 1; Some(Result::<bool, ()>::Ok(bits[i])) } }));
        assert!(d.is_ok());
        assert!(d.ok().unwrap() == s);
        assert!(i == 0);
    }

    #[kani::proof]
    #[kani::unwind(12)]
    fn bitstack_u8_roundtrip() {
        let k: usize = kani::any();
        kani::assume(k <= 9);
        let bits: [bool; 9] = kani::any();
        let mut s = StackCoder::<u8, Vec<u8>>::new();
        let mut i = 0;
        while i < k { s.write_bit(bits[i]).ok().unwrap(); i += 1; }
        assert!(s.len() == k);
        let c = s.into_compressed().ok().unwrap();
        let mut s2 = match StackCoder::<u8, Vec<u8>>::from_compressed(c) { Ok(s) => s, Err(_) => unreachable!() };
        assert!(s2.len() == k);
        let mut i = k;
        while i > 0 { i -= 1; let b = s2.read_bit().ok().unwrap(); assert!(b == Some(bits[i])); }
        assert!(s2.read_bit().ok().unwrap().is_none());
    }

    #[kani::proof]
    #[kani::unwind(6)]
    fn revcursor_space_left() {
        let mut buf: [u8; 4] = kani::any();
        let pos: usize = kani::any();
        kani::assume(pos <= 4);
        let cur = Cursor::new_at_pos_mut(&mut buf[..], pos).ok().unwrap();
        let mut rev = cur.into_reversed();
        let claimed = rev.space_left();
        let mut n = 0usize;
        while n < 5 { if rev.write(7).is_err() { break; } n += 1; }
        assert!(n == claimed);
    }

    fn check_c03_small<M, const P: usize>(m: &M, n: usize)
    where M: EncoderModel<P, Symbol = usize, Probability = u8> + DecoderModel<P, Symbol = usize, Probability = u8> {
        let total: u16 = 1 << P;
        let mut acc: u16 = 0;
        let mut i = 0;
        while i < n {
            let (c, p) = m.left_cumulative_and_probability(i).unwrap();
            assert!(c as u16 == acc);
            assert!((p.get() as u16) < total);
            acc += p.get() as u16;
            i += 1;
        }
        assert!(acc == total);
    }

    #[kani::proof]
    #[kani::unwind(6)]
    fn f_cat_fast_f32_n3_p4_norm1() {
        let probs: [f32; 3] = kani::any();
        kani::assume(probs[0] >= 0.0 && probs[1] >= 0.0 && probs[2] >= 0.0);
        kani::assume((probs[0] + probs[1]) + probs[2] == 1.0);
        if let Ok(m) = ContiguousCategoricalEntropyModel::<u8, _, 4>::from_floating_point_probabilities_fast(&probs, Some(1.0)) {
            check_c03_small::<_, 4>(&m, 3);
        } else { unreachable!() }
    }

    #[kani::proof]
    #[kani::unwind(6)]
    fn f_cat_fast_f32_n2_p3_nonorm() {
        let probs: [f32; 2] = kani::any();
        kani::assume(probs[0] >= 0.0 && probs[1] >= 0.0);
        kani::assume(probs[0].is_finite() && probs[1].is_finite());
        if let Ok(m) = ContiguousCategoricalEntropyModel::<u8, _, 3>::from_floating_point_probabilities_fast(&probs, None) {
            check_c03_small::<_, 3>(&m, 2);
        }
    }

    #[derive(Clone, Copy)]
    struct TableDist3 { v: [f64; 2], inv: f64 }
    impl Distribution for TableDist3 {
        type Value = f64;
        fn distribution(&self, x: f64) -> f64 { if x < 1.0 { self.v[0] } else { self.v[1] } }
    }
    impl Inverse for TableDist3 { fn inverse(&self, _p: f64) -> f64 { self.inv } }

    #[kani::proof]
    #[kani::unwind(10)]
    fn f_quant_u8_p4_sup3() {
        let v: [f64; 2] = kani::any();
        kani::assume(v[0] >= 0.0 && v[0] <= v[1] && v[1] <= 1.0);
        let inv: f64 = kani::any();
        kani::assume(inv.is_finite());
        let quantizer = LeakyQuantizer::<f64, u8, u8, 4>::new(0..=2);
        let m = quantizer.quantize(TableDist3{v, inv});
        let mut acc: u16 = 0;
        let mut s: u8 = 0;
        while s <= 2 {
            let (c, p) = m.left_cumulative_and_probability(s).unwrap();
            assert!(c as u16 == acc);
            acc += p.get() as u16;
            s += 1;
        }
        assert!(acc == 16);
        let q: u8 = kani::any();
        kani::assume(q < 16);
        let (s, c, p) = m.quantile_function(q);
        assert!(s <= 2);
        assert!(c <= q && (q as u16) < c as u16 + p.get() as u16);
        let (c2, p2) = m.left_cumulative_and_probability(s).unwrap();
        assert!(c2 == c && p2 == p);
    }

    #[kani::proof]
    #[kani::unwind(12)]
    fn f_quant_u8_p8_sup4_grid() {
        let k: [u16; 4] = kani::any();
        kani::assume(k[0] <= k[1] && k[1] <= k[2] && k[2] <= k[3] && k[3] <= 256);
        let v = [k[0] as f64 / 256.0, k[1] as f64 / 256.0, k[2] as f64 / 256.0, k[3] as f64 / 256.0];
        let inv: f64 = kani::any();
        kani::assume(inv.is_finite());
        let quantizer = LeakyQuantizer::<f64, u8, u8, 8>::new(0..=3);
        let m = quantizer.quantize(TableDist{v, inv});
        let q: u8 = kani::any();
        let (s, c, p) = m.quantile_function(q);
        assert!(s <= 3);
        assert!(c <= q && (q as u16) < c as u16 + p.get() as u16);
        let (c2, p2) = m.left_cumulative_and_probability(s).unwrap();
        assert!(c2 == c && p2 == p);
    }

    #[kani::proof]
    #[kani::unwind(6)]
    fn f_lazy_vs_eager_f32_n3_p4_norm1() {
        let probs: [f32; 3] = kani::any();
        kani::assume(probs[0] >= 0.0 && probs[1] >= 0.0 && probs[2] >= 0.0);
        kani::assume((probs[0] + probs[1]) + probs[2] == 1.0);
        let eager = ContiguousCategoricalEntropyModel::<u8, _, 4>::from_floating_point_probabilities_fast(&probs, Some(1.0)).ok().unwrap();
        let lazy = LazyContiguousCategoricalEntropyModel::<u8, f32, _, 4>::from_floating_point_probabilities_fast(&probs[..], Some(1.0)).ok().unwrap();
        let s: usize = kani::any();
        kani::assume(s < 3);
        assert!(eager.left_cumulative_and_probability(s) == lazy.left_cumulative_and_probability(s));
        let q: u8 = kani::any();
        kani::assume(q < 16);
        assert!(eager.quantile_function(q) == lazy.quantile_function(q));
    }

    // ---------- round-2 probes ----------
    use constriction::stream::chain::ChainCoder;
    use constriction::{Pos, Seek};

    #[kani::proof]
    #[kani::unwind(6)]
    fn p2_hashmap_encoder_model() {
        let syms: [u8; 2] = kani::any();
        let probs: [u8; 2] = kani::any();
        if let Ok(m) = NonContiguousCategoricalEncoderModel::<u8, u8, 4>::from_symbols_and_nonzero_fixed_point_probabilities(syms.iter().cloned(), probs.iter(), false) {
            assert!(syms[0] != syms[1]);
            assert!(probs[0] != 0 && probs[1] != 0 && probs[0] as u16 + probs[1] as u16 == 16);
            let r = m.left_cumulative_and_probability(syms[1]);
            assert!(r.is_some());
            let (c, p) = r.unwrap();
            assert!(c == probs[0] && p.get() == probs[1]);
            let other: u8 = kani::any();
            kani::assume(other != syms[0] && other != syms[1]);
            assert!(m.left_cumulative_and_probability(other).is_none());
        }
    }

    #[kani::proof]
    #[kani::unwind(8)]
    fn p2_chain_rt_u8_u16_p4() {
        let data: [u8; 3] = kani::any();
        let m = Cuts::<u8, 4>{c1: kani::any(), c2: kani::any()};
        kani::assume(m.valid());
        let mut coder = match ChainCoder::<u8, u16, Vec<u8>, Vec<u8>, 4>::from_binary(data.to_vec()) { Ok(c) => c, Err(_) => { return; } };
        let sym = match coder.decode_symbol(m) { Ok(s) => s, Err(_) => { return; } };
        let (prefix, suffix) = match coder.into_remainders() { Ok(x) => x, Err(_) => unreachable!() };
        let mut coder2 = match ChainCoder::<u8, u16, Vec<u8>, Vec<u8>, 4>::from_remainders(suffix) { Ok(c) => c, Err(_) => { assert!(false); return; } };
        assert!(coder2.encode_symbol(sym, m).is_ok());
        let (p2, s2) = match coder2.into_binary() { Ok(x) => x, Err(_) => { assert!(false); return; } };
        // prefix ++ p2 ++ s2 == data
        let mut all = prefix; all.extend(p2); all.extend(s2);
        assert!(all.len() == 3);
        assert!(all[0] == data[0] && all[1] == data[1] && all[2] == data[2]);
    }

    #[kani::proof]
    #[kani::unwind(8)]
    fn p2_range_guard_u8_u16() {
        let lower: u16 = kani::any(); let range: u16 = kani::any();
        let st = match RangeCoderState::<u8,u16>::new(lower, range) { Ok(s) => s, Err(_) => return };
        let wraps = lower.wrapping_add(range) <= lower;
        let n: usize = kani::any(); kani::assume(n >= 1 && n <= 2);
        let w: u8 = kani::any();
        let sit = if wraps { EncoderSituation::Inverted(core::num::NonZeroUsize::new(n).unwrap(), w) } else { EncoderSituation::Normal };
        let b0: u8 = kani::any(); let blen: usize = kani::any(); kani::assume(blen <= 1);
        let mut bulk = Vec::new(); if blen == 1 { bulk.push(b0); }
        let mut enc = RangeEncoder::<u8,u16>::from_raw_parts(bulk, st, sit);
        let expect = match enc.clone().into_compressed() { Ok(v) => v, Err(_) => unreachable!() };
        let nw = enc.num_words();
        assert!(nw == expect.len());
        {
            let g = enc.get_compressed();
            assert!(g.len() == expect.len());
            let mut i = 0; while i < expect.len() { assert!(g[i] == expect[i]); i += 1; }
        }
        let (b2, st2, sit2) = enc.into_raw_parts();
        assert!(b2.len() == blen);
        if blen == 1 { assert!(b2[0] == b0); }
        assert!(st2 == st && sit2 == sit);
    }

    macro_rules! p2_ans_binary {
        ($name:ident, $W:ty, $S:ty) => {
            #[kani::proof]
            #[kani::unwind(8)]
            fn $name() {
                let data: [$W; 3] = kani::any();
                let len: usize = kani::any(); kani::assume(len <= 3);
                let v = data[..len].to_vec();
                let mut c = match AnsCoder::<$W,$S,Vec<$W>>::from_binary(v) { Ok(c) => c, Err(_) => unreachable!() };
                assert!(c.num_valid_bits() == len * <$W>::BITS as usize);
                {
                    let g = match c.get_binary() { Ok(g) => g, Err(_) => { assert!(false); return; } };
                    assert!(g.len() == len);
                    let mut i = 0; while i < len { assert!(g[i] == data[i]); i += 1; }
                }
                let out = match c.into_binary() { Ok(o) => o, Err(_) => { assert!(false); return; } };
                assert!(out.len() == len);
                let mut i = 0; while i < len { assert!(out[i] == data[i]); i += 1; }
            }
        };
    }
    p2_ans_binary!(p2_ans_binary_u8_u16, u8, u16);
    p2_ans_binary!(p2_ans_binary_u32_u64, u32, u64);
}
