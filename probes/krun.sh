#!/bin/bash
# usage: krun.sh <timeout_s> harness...
T=$1; shift
mkdir -p /tmp/klogs
for h in "$@"; do
  ( ulimit -v 14000000; cd /tmp/kprobe; start=$(date +%s); CARGO_NET_OFFLINE=true timeout $T cargo kani --exact --harness proofs::$h --target-dir /tmp/ktarget/$h > /tmp/klogs/$h.log 2>&1; rc=$?; echo "exit $rc wall $(( $(date +%s) - start ))s" >> /tmp/klogs/$h.log ) &
done
wait
