import sys, time, z3, collections, os
sys.path.insert(0, '/tmp/irsym')
import irsym
from irsym import *
import concurrent.futures as cf
irsym.DIVLEMMA[0] = bool(int(os.environ.get('DIVLEMMA','1')))
TO = int(os.environ.get('TO','30'))

def explore(kernel, ptr_sizes):
    text = open('/tmp/irprobe/target/release/deps/irprobe.ll').read()
    funcs, declares = parse_module(text)
    f = funcs[kernel]
    ex = Executor(funcs, declares, max_visits=int(os.environ.get('UNW','12')), feas_timeout_ms=int(os.environ.get('FEAS','300')))
    st = State(); env = {}
    for k,(ty, nm) in enumerate(f.params):
        if ty == 'ptr':
            n = ptr_sizes[k]
            oid = st.mem.alloc(n, [z3.BitVec(f"{nm.strip('%')}_b{i}", 8) for i in range(n)])
            env[nm] = Ptr(oid, bv(0, 64))
        else: env[nm] = z3.BitVec(nm.strip('%'), type_bits(ty))
    st.frames.append(dict(fn=f, env=env, block=f.order[0], prev=None, idx=0, dest=None))
    work = [(st, {})]
    t0 = time.time()
    while work:
        s, visits = work.pop()
        try: ex.step_path(s, visits, work)
        except Outcome as o:
            ex.stats['paths'] += 1; ex.outcomes.append((s.pc, o.kind, o.info))
    return ex, time.time() - t0

def solve_one(item):
    smt, what = item
    best = None
    with cf.ThreadPoolExecutor(max_workers=3) as exr:
        futs = {exr.submit(run_solver, cmd, smt, TO): nm for nm, cmd in SOLVERS.items()}
        res = {}
        for fu in cf.as_completed(futs):
            res[futs[fu]] = fu.result()
    # first definitive
    verd = 'unknown'; who = None; t = None
    for nm, (out, tt) in sorted(res.items(), key=lambda kv: kv[1][1]):
        if out in ('sat', 'unsat'): verd, who, t = out, nm, tt; break
    return what, verd, who, t, res

if __name__ == '__main__':
    kernel = sys.argv[1]
    ps = {int(a.split('=')[0]): int(a.split('=')[1]) for a in sys.argv[2:]}
    ex, texec = explore(kernel, ps)
    bad, ok = [], []
    kinds = collections.Counter()
    for pc, kind, info in ex.outcomes:
        if kind == 'infeasible': continue
        if kind == 'ret':
            v = z3.simplify(info)
            if z3.is_bv_value(v):
                kinds[f'ret={v.as_long()}'] += 1
                if v.as_long() >= 2: bad.append((pc, f'ret={v.as_long()}'))
                elif v.as_long() == 0: ok.append(pc)
            else:
                kinds['ret=sym'] += 1; bad.append((pc + [z3.UGE(v, 2)], 'ret>=2')); ok.append(pc + [v == 0])
        else:
            kinds[kind] += 1; bad.append((pc, f'{kind}'))
    print(f'== {kernel}: paths={ex.stats["paths"]} exec={texec:.1f}s outcomes={dict(kinds)}')
    t0 = time.time()
    with cf.ThreadPoolExecutor(max_workers=5) as pool:
        smts = [(to_smt2(pc if pc else [z3.BoolVal(True)]), what) for pc, what in bad]
        results = list(pool.map(solve_one, smts))
    summ = collections.Counter((w, v, who) for w, v, who, t, r in results)
    print('   per-path verdicts:', {f'{w}:{v}:{who}': n for (w, v, who), n in summ.items()}, f'solve wall={time.time()-t0:.1f}s max_t={max([t for *_, t, r in results if t] or [0]):.1f}')
    for (pc, what), (w, v, who, t, r) in zip(bad, results):
        if v == 'sat':
            s = z3.Solver(); s.add(*pc); s.check(); m = s.model()
            print('   CEX', what, {str(d): hex(m[d].as_long()) for d in m.decls() if not str(d).startswith('div')}); break
    for (pc, what), (w, v, who, t, r) in zip(bad, results):
        if v == 'unknown':
            open('/tmp/irsym/hard.smt2', 'w').write(to_smt2(pc)); print('   wrote hard path', what, 'to hard.smt2', {k: x[0][:40] for k, x in r.items()}); break
